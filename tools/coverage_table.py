#!/venv/bin/python
"""Print a markdown table (id, states, transitions, evaluations, distinct non-trivial, wall seconds, bound completed) from the
evidence files of the last run: tools/coverage_table.py [evidence_dir]"""
import glob
import json
import os
import sys

d = sys.argv[1] if len(sys.argv) > 1 else os.path.join(os.path.dirname(os.path.dirname(os.path.abspath(__file__))), "evidence")
print("| id | tier | states | transitions | evaluations | non-trivial | s | bound completed |")
print("|---|---|---|---|---|---|---|---|")
for f in sorted(glob.glob(os.path.join(d, "C*.json"))):
    e = json.load(open(f))
    c = e["coverage"]
    print("| %s | %s | %d | %d | %d | %d | %.0f | %s |" % (e["property_id"], e["tier"], c["states"], c["transitions"], c.get("evaluations", 0),
                                                            c.get("distinct_nontrivial", 0), e.get("wall_s", 0), c.get("bound_completed", "").replace("|", "/")[:400]))
