#!/bin/bash
# usage: process_seed3.sh <Cxx> <k> [extra check ids...]
# round-3 seed: confirm (scratch worktree), then run the quick check of its property (and extra ones) against it in another scratch worktree.
P=$1; K=$2; shift 2
D=/tmp/mut/out3-$P/m$K
ID=$P-r3-m$K
[ -f $D/patch.diff ] && [ -f $D/demo.py ] && [ -f $D/meta.json ] || { echo "$ID: incomplete"; exit 2; }
/verif/tools/confirm_seed.sh $ID $D/patch.diff $D/demo.py $D/meta.json 2>&1 | tail -2
[ -d /verif/seeded/$ID ] || exit 3
VERIF_MAX_CONFIRM=2 /verif/tools/mutest_wt.sh /verif/seeded/$ID/patch.diff $P "$@" 2>&1 | grep -v "^$" | cut -c1-400
