#!/venv/bin/python
"""Regenerate /verif/MANIFEST.json from mc/registry.py and validate it."""
import json, os, sys
sys.path.insert(0, "/verif")
from mc import registry
ids = ["C%02d" % i for i in range(1, 21)]
checks, na = [], []
for pid in ids:
    r = registry.CHECKS.get(pid)
    if r is None:
        na.append({"property_id": pid, "reason": registry.NOT_APPLICABLE.get(pid, "no check built yet in this round; not claimed")})
        continue
    checks.append({
        "property_id": pid,
        "quick_cmd": "./check %s quick" % pid,
        "thorough_cmd": "./check %s thorough" % pid,
        "evidence_file": "/verif/evidence/%s.json" % pid,
        "replay_cmd_template": "./check replay {path}",
        "engine": "mc-explorer",
        "level_claimed": {"category": "model_checking", "text": r["text"], "design_ref": r["design_ref"]},
        "level_note": r["note"],
        "technique": r["technique"],
    })
m = {
    "version": 1,
    "setup_cmd": "./check setup",
    "hooks": {
        "guard": "DISTANCE3D_VERIF",
        "enable": "no source hooks are needed: the checks import /repo's working tree directly (PYTHONPATH=/repo) and instrument from outside (instance-level wrappers); DISTANCE3D_VERIF=1 is exported by the harness for any future add-only hook",
        "baseline_off_cmd": "/verif/tools/baseline.py /repo",
        "source_commits": [],
        "add_only": True,
    },
    "engines": [{
        "name": "mc-explorer", "path": "/verif/mc",
        "serves_properties": [c["property_id"] for c in checks],
        "kind_free_text": "hand-written explicit-state / bounded-exhaustive explorer for Python: enumerates finite descriptor lattices and operation histories, executes the real distance3d code in every state inside a sandboxed fork pool (crash/hang isolation by bisection), compares every step with an independent reference model (mc/refmodel), confirms violations by replay in a fresh process",
    }],
    "checks": checks,
    "not_applicable": na,
    "notes": registry.NOTES,
}
import jsonschema
jsonschema.validate(m, json.load(open("/root/.vp/MANIFEST.schema.json")))
json.dump(m, open("/verif/MANIFEST.json", "w"), indent=1)
print("MANIFEST.json: %d checks, %d not_applicable" % (len(checks), len(na)))
