#!/bin/bash
# usage: confirm_seed.sh <seed-id> <patch.diff> <demo.py> <meta.json> [caught-by...]
# Confirms in a scratch worktree of /repo HEAD: patch applies, demo FAILS with it and PASSES without it,
# pinned baseline passes with it. On success stores /verif/seeded/<seed-id>/{patch.diff,demo.py,meta.json}.
ID="$1"; PATCH="$2"; DEMO="$3"; META="$4"; shift 4
WT=/var/tmp/confirm-$ID-$$
git -C /repo worktree add --detach -q "$WT" HEAD || exit 2
cleanup() { git -C /repo worktree remove --force "$WT" >/dev/null 2>&1; rm -rf "$WT"; }
trap cleanup EXIT
cd "$WT"
cp "$DEMO" demo.py
export PYTHONDONTWRITEBYTECODE=1 NUMBA_CACHE_DIR="$WT/.nbcache0"
/venv/bin/python demo.py >/dev/null 2>&1; rc_clean=$?
if ! git apply "$PATCH" 2>/dev/null; then echo "$ID: PATCH DOES NOT APPLY"; exit 3; fi
export NUMBA_CACHE_DIR="$WT/.nbcache1"
/venv/bin/python demo.py >/dev/null 2>&1; rc_mut=$?
rm -f demo.py
NUMBA_CACHE_DIR="$WT/.nbcache1" /verif/tools/baseline.py "$WT" > "$WT/.baseline.out" 2>&1; rc_base=$?
echo "$ID: demo_clean_rc=$rc_clean demo_mutant_rc=$rc_mut baseline_rc=$rc_base $(head -1 $WT/.baseline.out)"
if [ $rc_clean -eq 0 ] && [ $rc_mut -ne 0 ] && [ $rc_base -eq 0 ]; then
  mkdir -p /verif/seeded/$ID
  cp "$PATCH" /verif/seeded/$ID/patch.diff; cp "$DEMO" /verif/seeded/$ID/demo.py
  /venv/bin/python - "$META" "$ID" "$@" <<'PY'
import json,sys
meta=json.load(open(sys.argv[1])); sid=sys.argv[2]; caught=sys.argv[3:]
out={"id":sid,"property":meta.get("property"),"summary":meta.get("summary"),"needs":meta.get("needs"),
     "confirmed":{"patch_applies_on_repo_HEAD":True,"demo_passes_without_patch":True,"demo_fails_with_patch":True,"pinned_baseline_passes_with_patch":True,
                  "how":"tools/confirm_seed.sh in a scratch worktree of /repo HEAD (removed afterwards)"},
     "caught_by_quick_checks":caught, "agent_ran":meta.get("ran")}
json.dump(out,open("/verif/seeded/%s/meta.json"%sid,"w"),indent=1)
PY
  echo "$ID: STORED"
else
  echo "$ID: NOT CONFIRMED"
fi
