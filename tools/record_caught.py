#!/venv/bin/python
"""usage: record_caught.py <seed-id> <check id>=<rc> ...   - writes caught_by_quick_checks / run_against into seeded/<id>/meta.json"""
import json, sys
sid = sys.argv[1]
p = "/verif/seeded/%s/meta.json" % sid
m = json.load(open(p))
caught = set(m.get("caught_by_quick_checks") or [])
ran = dict(m.get("quick_checks_run_against_it") or {})
for a in sys.argv[2:]:
    c, rc = a.split("=")
    ran[c] = "VIOLATION reported (exit 1)" if rc == "1" else "silent (exit 0)"
    if rc == "1":
        caught.add(c)
m["caught_by_quick_checks"] = sorted(caught)
m["quick_checks_run_against_it"] = ran
json.dump(m, open(p, "w"), indent=1)
