#!/bin/bash
# usage: mutest_wt.sh <patch.diff> <check id>...
# Like mutest.sh but never touches /repo: applies the patch in a scratch worktree of /repo HEAD under /var/tmp, runs the
# quick checks against it (VERIF_REPO) with evidence/replays redirected (VERIF_OUT), removes the worktree.
P="$1"; shift
WT=/var/tmp/mt-$$
git -C /repo worktree add --detach -q "$WT" HEAD || exit 2
cleanup() { git -C /repo worktree remove --force "$WT" >/dev/null 2>&1; rm -rf "$WT" /var/tmp/mt-out-$$; }
trap cleanup EXIT
if ! git -C "$WT" apply "$P" 2>/dev/null; then
  if ! git -C "$WT" apply --3way "$P" 2>/dev/null; then echo "PATCH DOES NOT APPLY: $P"; exit 3; fi
fi
mkdir -p /var/tmp/mt-out-$$/evidence /var/tmp/mt-out-$$/replays
cd /verif
for id in "$@"; do
  out=$(VERIF_REPO=$WT VERIF_OUT=/var/tmp/mt-out-$$ VERIF_QUIET=1 VERIF_MAX_CONFIRM=${VERIF_MAX_CONFIRM:-3} VERIF_TIER=${MT_TIER:-quick} ./check $id ${MT_TIER:-quick} 2>&1); rc=$?
  echo "$id rc=$rc $(echo "$out" | grep "^\[$id\]" | cut -c1-160)"
  echo "$out" | grep -A1 "^VIOLATION" | head -4 | cut -c1-300
  if [ -n "$MT_SHOW" ]; then f=$(echo "$out" | grep -o "replay=[^ ]*" | head -1 | cut -d= -f2); [ -n "$f" ] && head -c 1500 "$f"; fi
done
