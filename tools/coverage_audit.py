#!/venv/bin/python
"""Line-coverage audit of the check corpora over distance3d (interpreted mode, sys.settrace).

usage: tools/coverage_audit.py [n_states_per_check] [ids...]
Runs an evenly spaced subset of every check's quick states with NUMBA_DISABLE_JIT=1 under a line tracer and prints,
per source file of /repo/distance3d, the executable lines never reached.  This is an audit aid (which decision-tree
leaves of the library no check descriptor reaches), not a check: it decides nothing."""
import dis
import importlib
import json
import os
import sys
import types

sys.path.insert(0, "/verif")
sys.path.insert(1, "/repo")
os.environ["VERIF_MODE"] = "nojit"
from mc import bootstrap  # noqa

bootstrap.init("nojit")
ROOT = "/repo/distance3d/"
hit = {}


def tracer(frame, event, arg):
    fn = frame.f_code.co_filename
    if not fn.startswith(ROOT):
        return None
    s = hit.setdefault(fn, set())

    def local(frame, event, arg):
        if event == "line":
            s.add(frame.f_lineno)
        return local
    s.add(frame.f_lineno)
    return local


def executable_lines(path):
    src = open(path).read()
    code = compile(src, path, "exec")
    lines = set()

    def walk(co, top):
        if not top:
            for _, _, ln in co.co_lines():
                if ln is not None:
                    lines.add(ln)
        for c in co.co_consts:
            if isinstance(c, types.CodeType):
                walk(c, False)
    walk(code, True)
    # drop def lines / docstrings heuristically: keep only lines inside function bodies (already so)
    return lines


def main(argv):
    n = int(argv[0]) if argv and argv[0].isdigit() else 200
    ids = [a.upper() for a in argv[1:]] or ["C%02d" % i for i in range(1, 21)]
    for pid in ids:
        mod = importlib.import_module("mc.props." + pid.lower())
        try:
            mod.warmup()
        except Exception:
            pass
        st = mod.enumerate_states("quick", 0)
        if isinstance(st, tuple):
            st = st[0]
        step = max(1, len(st) // n)
        sub = st[::step][:n]
        sys.settrace(tracer)
        try:
            for d in sub:
                try:
                    mod.run_state(d)
                except Exception as e:  # noqa
                    pass
        finally:
            sys.settrace(None)
        print("ran", pid, len(sub), "of", len(st), file=sys.stderr, flush=True)
    out = {}
    tot_e = tot_h = 0
    for dirpath, _, files in os.walk(ROOT):
        for f in sorted(files):
            if not f.endswith(".py"):
                continue
            p = os.path.join(dirpath, f)
            ex = executable_lines(p)
            h = hit.get(p, set()) & ex
            miss = sorted(ex - h)
            tot_e += len(ex)
            tot_h += len(h)
            out[p[len(ROOT):]] = {"executable": len(ex), "hit": len(h), "missed": miss}
    print(json.dumps(out))
    print("TOTAL executable=%d hit=%d (%.1f%%)" % (tot_e, tot_h, 100.0 * tot_h / max(1, tot_e)), file=sys.stderr)


if __name__ == "__main__":
    main(sys.argv[1:])
