#!/venv/bin/python
"""Run the repository's pinned baseline (guard OFF) and compare with /root/.vp/BASELINE.json.
usage: baseline.py [repo_dir]   exit 0 iff all stable_pass tests pass."""
import json, os, subprocess, sys, tempfile, xml.etree.ElementTree as ET
repo = sys.argv[1] if len(sys.argv) > 1 else "/repo"
base = json.load(open("/root/.vp/BASELINE.json"))
fd, xml = tempfile.mkstemp(suffix=".xml", dir="/var/tmp"); os.close(fd)
env = dict(os.environ); env.pop("DISTANCE3D_VERIF", None); env.pop("NUMBA_DISABLE_JIT", None)
env["PYTHONDONTWRITEBYTECODE"] = "1"
cmd = [ "/venv/bin/python", "-m", "pytest", "-ra", "-q", "-p", "no:cacheprovider", "--timeout=900",
        "--continue-on-collection-errors", "--junitxml=" + xml, "--no-cov"]
p = subprocess.run(cmd, cwd=repo, env=env, stdout=subprocess.PIPE, stderr=subprocess.STDOUT, text=True)
passed = set()
try:
    for tc in ET.parse(xml).getroot().iter("testcase"):
        if not any(ch.tag in ("failure", "error", "skipped") for ch in tc):
            passed.add(tc.get("classname") + "::" + tc.get("name"))
finally:
    os.unlink(xml)
missing = [t for t in base["stable_pass"] if t not in passed]
print("passed=%d stable_pass=%d missing=%d" % (len(passed), len(base["stable_pass"]), len(missing)))
for t in missing: print("MISSING", t)
if missing: print(p.stdout[-3000:])
sys.exit(1 if missing else 0)
