#!/bin/bash
# usage: mutest.sh <patch.diff> <check id>...   applies the patch to /repo, runs the quick checks, reverts.
# prints one line per check: <id> rc=<rc> <summary line>
P="$1"; shift
cd /repo || exit 2
if ! git diff --quiet; then echo "repo dirty"; exit 2; fi
if ! git apply "$P" 2>/dev/null; then
  if ! git apply --3way "$P" 2>/dev/null; then echo "PATCH DOES NOT APPLY: $P"; git reset -q --hard HEAD; exit 3; fi
  git reset -q
fi
cd /verif
for id in "$@"; do
  out=$(VERIF_QUIET=1 VERIF_MAX_CONFIRM=${VERIF_MAX_CONFIRM:-3} ./check $id quick 2>&1); rc=$?
  echo "$id rc=$rc $(echo "$out" | grep "^\[$id\]" | cut -c1-160)"
  echo "$out" | grep -A1 "^VIOLATION" | head -4 | cut -c1-300
done
cd /repo && git checkout -- . && git status --short | head -3
