"""Process bootstrap: must be imported before distance3d in every process.

* pins determinism knobs,
* points numba at a cache directory keyed by a hash of the whole distance3d
  source tree (numba's own cache key only covers the defining file, so a
  shared directory would serve stale machine code of edited callees),
* stubs what the sealed sandbox cannot import (open3d needs libusb),
* aliases numpy.row_stack only if numpy no longer has it (so that checks other
  than C20's import obligation can still run on a tree that uses it).
"""
import hashlib
import os
import sys
import types

REPO = os.environ.get("VERIF_REPO", "/repo")
VERIF = os.path.dirname(os.path.dirname(os.path.abspath(__file__)))
GUARD = "DISTANCE3D_VERIF"


def tree_hash(repo=REPO):
    h = hashlib.sha256()
    root = os.path.join(repo, "distance3d")
    for dirpath, dirnames, filenames in os.walk(root):
        dirnames.sort()
        if "__pycache__" in dirnames:
            dirnames.remove("__pycache__")
        for fn in sorted(filenames):
            if fn.endswith(".py"):
                p = os.path.join(dirpath, fn)
                h.update(os.path.relpath(p, root).encode())
                with open(p, "rb") as f:
                    h.update(f.read())
    return h.hexdigest()[:20]


def _prune(cache_root, keep):
    try:
        ds = [os.path.join(cache_root, d) for d in os.listdir(cache_root)]
    except OSError:
        return
    ds = [d for d in ds if os.path.isdir(d)]
    ds.sort(key=lambda d: os.path.getmtime(d), reverse=True)
    import shutil
    for d in ds[keep:]:
        shutil.rmtree(d, ignore_errors=True)


def setup_env(mode=None):
    """Set environment variables (before numba is imported).

    mode: 'jit' (default), 'nojit', 'boundscheck'."""
    mode = mode or os.environ.get("VERIF_MODE", "jit")
    os.environ["VERIF_MODE"] = mode
    os.environ.setdefault("PYTHONHASHSEED", "0")
    os.environ["OMP_NUM_THREADS"] = "1"
    os.environ["OPENBLAS_NUM_THREADS"] = "1"
    os.environ["MKL_NUM_THREADS"] = "1"
    os.environ["NUMBA_NUM_THREADS"] = "1"
    os.environ["PYTHONDONTWRITEBYTECODE"] = "1"
    os.environ[GUARD] = "1"
    sys.dont_write_bytecode = True
    if mode == "nojit":
        os.environ["NUMBA_DISABLE_JIT"] = "1"
    else:
        os.environ.pop("NUMBA_DISABLE_JIT", None)
    if mode == "boundscheck":
        os.environ["NUMBA_BOUNDSCHECK"] = "1"
    else:
        os.environ.pop("NUMBA_BOUNDSCHECK", None)
    if "VERIF_NUMBA_CACHE" in os.environ and os.environ.get("VERIF_NUMBA_CACHE_MODE") == mode:
        os.environ["NUMBA_CACHE_DIR"] = os.environ["VERIF_NUMBA_CACHE"]
    else:
        cache_root = os.path.join(VERIF, ".cache", "numba")
        os.makedirs(cache_root, exist_ok=True)
        d = os.path.join(cache_root, tree_hash() + "-" + mode)
        if not os.path.isdir(d):
            _prune(cache_root, keep=int(os.environ.get("VERIF_CACHE_KEEP", "12")))
            os.makedirs(d, exist_ok=True)
        else:
            os.utime(d, None)
        os.environ["NUMBA_CACHE_DIR"] = d
        os.environ["VERIF_NUMBA_CACHE"] = d
        os.environ["VERIF_NUMBA_CACHE_MODE"] = mode
    if REPO not in sys.path:
        sys.path.insert(0, REPO)
    return mode


def install_stubs(alias_row_stack=True):
    import numpy as np
    if alias_row_stack and not hasattr(np, "row_stack"):
        np.row_stack = np.vstack
    if "open3d" not in sys.modules:
        try:
            import open3d  # noqa: F401
        except Exception:
            sys.modules.pop("open3d", None)
            stub = types.ModuleType("open3d")
            stub.__verif_stub__ = True
            sys.modules["open3d"] = stub
    try:
        import pytransform3d.visualizer as pv
        if not hasattr(pv, "Artist"):
            pv.Artist = object
    except Exception:
        pass


def init(mode=None, alias_row_stack=True, seed=None):
    mode = setup_env(mode)
    install_stubs(alias_row_stack)
    import numpy as np
    if seed is None:
        seed = int(os.environ.get("VERIF_SEED", "0") or 0)
    np.random.seed(seed % (2 ** 32))
    np.seterr(all="ignore")
    return mode


def seed():
    try:
        return int(os.environ.get("VERIF_SEED", "0") or 0)
    except ValueError:
        return 0


def tier():
    t = os.environ.get("VERIF_TIER", "quick")
    return t if t in ("quick", "thorough") else "quick"
