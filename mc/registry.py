"""Per-property registration used to generate MANIFEST.json (tools/gen_manifest.py)."""

NOTES = ("All checks are bounded-exhaustive explorations of the real code against a reference model; "
         "see DESIGN.md. Known genuine defects are listed in known_findings.json.")

NOT_APPLICABLE = {}

CHECKS = {
    "C18": {
        "text": ("Every configuration of 1..4 points with coordinates in {-1,0,1} in every ordering (551880 ordered "
                 "configurations, complete) is executed on both real simplex solvers and compared with an exact "
                 "rational minimum-norm oracle (norm, subset hull membership, weights); quick adds the lattice under "
                 "4 scalings (1e-2, 1e-4, needle 1:1e-5:1e-5, anisotropic 1:1e-3:1e-6; k<=3 complete, k=4 slice), thorough "
                 "adds {-2..2} for k<=3 and 10 scalings complete (6.9e5 states). A finite case space enumerated completely is "
                 "the strongest statement this family can make."
                 " Family big70 / big70u1 / big70u2: lattice points scaled by (70, 0.707, 0.707) and perturbed by 0-2 ulp per coordinate (configurations that are degenerate only up to rounding, as GJK meets them for size-100 shapes)."),
        "design_ref": "DESIGN.md 5 C18",
        "note": "Trusted: CPython fractions, numpy; bounded to the stated lattices (nothing is claimed for off-lattice inputs).",
        "technique": "explicit-state exhaustive enumeration of the input lattice on the real code vs exact rational reference model",
    },
    "C03": {
        "text": ("Every collider type x size x all 28 orientations (24 cube rotations put queries on every sign/zero boundary) "
                 "x offsets x Margin x 30 directions x 3 norms is executed on the real support mappings and compared with "
                 "closed-form support values and exact point-to-set distances of an independent reference model; for "
                 "MeshGraph the hidden state (cached start vertex) is explored by BFS to closure x every direction, plus all "
                 "query sequences of length 3."
                 " MeshGraph adjacency: all 1296 orderings of the triangle list of two tetrahedra (user meshes are not consistently wound) x 4 cache states x 30 directions; meshes with an unreferenced vertex 0, raw qhull winding and a corner tetrahedron are in the alphabet."),
        "design_ref": "DESIGN.md 5 C03",
        "note": "Trusted: reference closed forms in mc/refmodel/shapes.py, scipy ConvexHull for hull facets; nothing is claimed off the lattice.",
        "technique": "bounded-exhaustive input-lattice enumeration + explicit-state BFS over mesh cache state on the real code vs reference model",
    },
    "C04": {
        "text": ("Full product type x size x 28 orientations x 4 offsets (x Margin) on the real aabb()/containment functions and "
                 "RigidBody.aabb() for the six factories x 8 poses, compared with the closed-form extents -h(-e_i), h(e_i) "
                 "(enclosure and tightness in one comparison)."),
        "design_ref": "DESIGN.md 5 C04",
        "note": "Trusted: reference support values. Known finding KF-C04-ellipsoid-aabb (pinned test encodes the wrong numbers) is matched only when the result equals the known wrong formula.",
        "technique": "exhaustive enumeration of the pose/size lattice on the real code vs closed-form reference extents",
    },
    "C01": {
        "text": ("All 100 ordered collider type pairs are fully crossed; sizes (4-6 per type, 1e-2..1e2), 28 orientations, offsets up "
                 "to 1e3, Margin wrappers, 14 placements (exact touching, gaps 1e-6..300, overlapping, nested, identical, same object) "
                 "and 31 directions are explored to deviation bound 2 (every pair of non-default factors; ~4.4e5 scenes) plus a "
                 "seed-selected slice of deviation-3 scenes; every scene has constructed ground truth (parallel supporting planes prove "
                 "the distance) and every answer is judged by membership, consistency and the separating-plane optimality certificate."),
        "design_ref": "DESIGN.md 5 C01",
        "note": "Trusted: reference model; bounded to the scene lattice. Support evaluations are counted through instance-level wrappers (budget 2000).",
        "technique": "bounded-exhaustive scene-lattice exploration of the real gjk.gjk vs reference model (constructed truth + separating-plane certificate)",
    },
    "C05": {
        "text": ("Explicit-state search over insertion histories of the real AabbTree: every history of <= 2 operations over a "
                 "400-operation alphabet (single inserts, batches of size 0-3 of touching/nested/zero-volume/duplicate lattice boxes, "
                 "modes none/sort/shuffle with EVERY permutation through an RNG seam, with/without payload) and of <= 3 operations "
                 "over a reduced alphabet; canonical-state de-duplication; in every state structural invariants, 14 box queries and "
                 "tree-vs-tree queries against 6 reference trees (incl. the empty tree, both directions) are compared with a "
                 "list-of-boxes model; the reduced search is repeated under NUMBA_BOUNDSCHECK=1 and interpreted."
                 " Reference trees of the tree-vs-tree queries include small clusters inside the explored boxes; a third box family lies on a non-dyadic 0.1 grid (exactly touching faces with inexact binary coordinates)."),
        "design_ref": "DESIGN.md 5 C05",
        "note": "Trusted: the list-of-boxes model; canonical form = the public arrays and lists (the class has no other state).",
        "technique": "explicit-state model checking of operation histories on the real code vs reference model, crash/hang isolation in a fork sandbox",
    },
    "C02": {
        "text": ("All boolean narrow-phase tests (jolt, libccd, MPR, Nesterov with/without acceleration, Nesterov-primitives "
                 "with/without acceleration) are executed on every scene of the deviation-2 lattice (all 100 ordered type pairs) "
                 "whose truth is certified by construction: gap >= delta by two parallel supporting planes, or a common point at "
                 "depth >= delta in both shapes (delta = 1e-3*L). ~4.3e5 judged scenes, ~2.4e6 test executions; scenes in the "
                 "grazing band are generated but not judged. Lattice-polytope family (exact ties by construction): EVERY non-degenerate "
                 "tetrahedron with vertices in {-1,0,1}^3 (14632; as a vertex hull and as a mesh, seed-selected vertex order, thorough all 24) "
                 "against 4 partner polytopes (two boxes, two tetrahedra) at 5 (thorough 10) dyadic centres, both argument orders, all five "
                 "generic tests; truth = witness point at depth >= delta in both polytopes from the facet half-spaces, or a separating "
                 "axis (facet normals and edge-edge cross products) with gap >= delta."),
        "design_ref": "DESIGN.md 5 C02, 8.9",
        "note": "Trusted: reference model; known finding KF-C02-mpr-coplanar-flat is matched by exact descriptor only.",
        "technique": "bounded-exhaustive scene-lattice exploration of the real boolean tests vs constructed ground truth",
    },
    "C09": {
        "text": ("gjk_distance_original (full closest-point certificate at 1e-3*L), gjk_nesterov_accelerated with and without "
                 "acceleration on all 100 ordered pairs incl. every mixed specialised/generic pair, and the primitives variant on "
                 "its 25 pairs are executed on deviation-1 (full alphabets) + deviation-2 (reduced alphabets) scenes with "
                 "constructed truth; *_distance and *_iterations helpers must equal the full call started from the same state. "
                 "Kernel family: project_line_origin / project_triangle_origin / project_tetra_to_origin of both Nesterov modules are executed "
                 "on EVERY ordered simplex of 2-4 distinct points of the lattice {-1,0,1}^3 (two offsets, thorough three) that satisfies the GJK "
                 "loop invariant (previous simplex = minimal face of the iterate, strict progress of the newest point, winding set by "
                 "origin_to_triangle) and compared with the exact rational minimum-norm point; the reduced simplex must be a subset of the "
                 "input whose hull contains the returned point."),
        "design_ref": "DESIGN.md 5 C09",
        "note": "Trusted: reference model. Mesh vertex caches are reset to the same state before each compared call.",
        "technique": "bounded-exhaustive scene-lattice exploration of the real alternative GJK flavours vs constructed truth and certificate; exhaustive lattice enumeration of the projection kernels under the loop invariant vs exact rational arithmetic",
    },
    "C14": {
        "text": ("For every collider type with update_pose (x 2 sizes x Margin): all histories of 1..3 update_pose calls over 6 poses "
                 "x {fresh array, item of a pose stack}, with the query battery (14 support queries, aabb, center, first_vertex, "
                 "collider2origin, gjk distance + intersection against two partners) after every step or only at the end; every "
                 "observation must equal that of a collider constructed directly at the last pose and no query may raise."
                 " A third schedule makes one support query (8 directions in the collider's own frame) the very first query after the last update; the mesh alphabet contains a mesh whose vertex 0 is referenced by no triangle."),
        "design_ref": "DESIGN.md 5 C14",
        "note": "Differential oracle: fresh construction at the same pose (whose own correctness is C03/C04/C01).",
        "technique": "exhaustive enumeration of update/query histories up to depth 3 on the real code with a fresh-object differential oracle",
    },
    "C07": {
        "text": ("Overlapping scenes (coincident/offset anchors, deep, identical, supporting planes interpenetrating by 2%/20%/50% of the "
                 "size along lattice and generic directions) for all 100 ordered type pairs: deviation bound 2 for the 9 polytope "
                 "pairs, 1 otherwise; gjk.gjk's simplex is handed to epa in all 24 row permutations (<=1 deviation) or one even and "
                 "one odd permutation. Polytope pairs are judged exactly by exhaustive SAT-axis enumeration (|mtv| = depth, residual "
                 "overlap/gap after translation, both 1e-6*L, success required); smooth pairs by sound one-sided bounds."
                 " Interpenetrations down to 1e-6 and 1e-7 of the size are part of the placement alphabet."
                 " Read-only invariant in every state: the support values of both colliders along the six axis directions are the same after gjk + epa as before."),
        "design_ref": "DESIGN.md 5 C07",
        "note": "Only well-formed hand-overs are judged: all four simplex rows must be support points gjk really evaluated and the origin must be strictly inside (gjk returns uninitialised rows otherwise). KF-C07-epa-capacity-icosphere is matched by class.",
        "technique": "bounded-exhaustive enumeration of overlapping scenes x simplex windings on the real gjk+epa vs exhaustive SAT-axis reference",
    },
    "C08": {
        "text": ("mpr_penetration and mpr_intersection are executed on ~6.5e4 overlapping scenes (all 100 ordered type pairs, deviation "
                 "bound 2 over placements incl. coincident centres and centres on the penetration axis, directions, orientations, "
                 "sizes, offsets, margins). Checked: depth >= 0, unit/zero direction, contact position member of both colliders, "
                 "residual overlap after translating by depth*direction <= 2e-3*L and depth >= true depth - 2e-3*L (exact over the SAT "
                 "axes for polytopes; sound inscribed-ball lower bounds otherwise), flag agreement with mpr_intersection."),
        "design_ref": "DESIGN.md 5 C08",
        "note": "For smooth pairs only lower bounds are used, so a too-large residual that no inscribed ball certifies stays undecided. KF-C08-segment-contact is matched only when the position equals the midpoint of the two extreme support points in the centres-on-axis branch.",
        "technique": "bounded-exhaustive scene-lattice exploration of the real MPR vs SAT-axis / inscribed-ball reference bounds",
    },
    "C19": {
        "text": ("Bounded liveness: 61 collider variants (all types and sizes, aspect-1e4 needles and plates, zero-volume hulls: vertex, "
                 "segment, planar quad, collinear triple) fully crossed as ordered pairs x 9 lattice placements (coincident, exactly "
                 "touching along x/z/diagonal, 1e-9 gap, half overlapping, apart, small generic, same object twice) + orientation pairs; "
                 "every narrow-phase entry point (11 + epa) runs under a counted budget of 1000 support evaluations and a per-state "
                 "watchdog; outputs must be finite; the only tolerated exception is epa's capacity assertion."
                 " Also: vertex/segment and segment/segment pairs in general position (gaps 0, 1e-7, 1e-5, 1e-3 perpendicular to the segment), 1e-5 gaps along x and z; EPA's capacity assertion counts as a violation for two small polytopes with a genuine GJK tetrahedron."),
        "design_ref": "DESIGN.md 5 C19",
        "note": "Bounded statement: no explored input needs more than 1000 evaluations; nothing is claimed about all inputs. self_collision.detect is exercised by C06.",
        "technique": "bounded-exhaustive degenerate-geometry lattice on the real entry points under a support-call budget and watchdog sandbox",
    },
    "C13": {
        "text": ("8 predicates x sizes in the primitive domain x 32 orientations (24 cube rotations, generic, nearly aligned) x offsets; "
                 "per state ~300 points constructed from boundary features (directions incl. the shape's own axes: apex, rim, corner, "
                 "face centre) moved along the normal by -s..-2tol and +2tol..+s; each point is classified exactly by the reference "
                 "model (inscribed ball >= tol => must be True, distance >= tol => must be False), evaluated as a batch and as "
                 "singletons, and cross-checked with point_to_disk/box/ellipsoid/cylinder and the collider support functions."
                 " Extra sizes: ellipsoid with radii equal up to 1e-5 relative, exact ties between size parameters (ellipsoids with three / two equal radii, capsule / cylinder / cone with radius = height), cylinder with radius = length/2; convex-mesh predicate also on the triangles produced by the library's own make_convex_mesh (origin outside the hull, unreferenced interior vertex)."),
        "design_ref": "DESIGN.md 5 C13",
        "note": "Disk (zero thickness): 'inside' is only asserted for points exactly in the plane (axis-aligned normals). Points closer than tol to the boundary are not judged.",
        "technique": "bounded-exhaustive enumeration of shape lattice x constructed boundary-offset points on the real predicates vs exact reference classification",
    },
    "C10": {
        "text": ("For each of the 34 functions (+ the surface variant of point_to_ellipsoid) the full product of two primitive alphabets "
                 "(11.7e3 pairs; alphabets built from lattice points, lattice directions and cube/generic rotations so that exactly "
                 "parallel, perpendicular, coplanar, touching, contained and coincident pairs occur by construction) is executed; "
                 "no exception, finite, d >= 0, returned points are members of their primitives (exact point-to-primitive distance, "
                 "1e-9*L), |p1-p2| = d (1e-6*L)."),
        "design_ref": "DESIGN.md 5 C10/C11",
        "note": "Known finding KF-C10-ellipsoid-surface-inside is matched by exact (function, pair) only.",
        "technique": "exhaustive enumeration of primitive-alphabet products on the real code vs exact reference membership",
    },
    "C11": {
        "text": ("Same enumeration as C10; optimality decided by the separating-plane certificate along the returned direction, projected "
                 "onto the directions of finite support for lines/planes (necessary and sufficient for convex pairs); circle "
                 "functions by exhaustive interval subdivision over the circle angle with a Lipschitz bound (certified: no angle is "
                 "closer than d - tol); ellipsoid surface by a 1-degree surface grid with refinement (witness search)."),
        "design_ref": "DESIGN.md 5 C10/C11",
        "note": "Given C10's feasibility, a reported d can only be too large; every alarm exhibits a strictly closer pair or a failing lower bound. Known findings matched by exact (function, pair).",
        "technique": "exhaustive enumeration of primitive-alphabet products on the real code vs separating-plane certificates / Lipschitz interval subdivision",
    },
    "C06": {
        "text": ("Four generated URDF robots (3-link chain, 4-link chain with prismatic joints, branching tree with asymmetric generated "
                 "whitelists, gripper with prefix link names, child links declared before the parent, mounted on a rotated base 1e3 units "
                 "from the origin with a 4 mm prismatic jog) with sphere/box/cylinder geometry plus capsule, cone and mesh colliders (built from one shared pose array) and two spheres (built from one shared centre array) added with add_collider: every edge of "
                 "the joint-configuration graph (all single-joint moves between all lattice configurations, 27/54/36/12 configurations) and "
                 "all move sequences of length <= 3 are executed on a live BVH (set_joint + update_collider_poses). In every state: collider "
                 "poses = transform manager; aabb_overlapping_colliders (all own colliders with/without whitelist, 6 external queries), "
                 "aabb_overlapping_with_self, aabb_overlapping_with_other_bvh = all-pairs model; detect between the lower and upper set "
                 "of the statement; detect_any = exists; live BVH = BVH built fresh at that configuration; generated whitelists vs the kinematic "
                 "structure (own and parent link must be whitelisted, only child links may be in addition)."),
        "design_ref": "DESIGN.md 5 C06",
        "note": "Trusted: pytransform3d transform manager / URDF parser. Colliding pairs whose AABBs miss by < 1e-9*L (grazing, inside C04's tolerance) are allowed but not required.",
        "technique": "explicit-state exploration of the configuration graph on the real BVH vs all-pairs reference model and fresh-object differential oracle",
    },
    "C17": {
        "text": ("212 parameter tuples over the six mesh factories: radii/sizes 1e-2..1e2, subdivision orders 0-3 (thorough 0-4), 3-4 resolution "
                 "hints, every class boundary (cylinder length = diameter exactly and +-1e-15, 1e-13, 1e-9 relative; boxes with two or three "
                 "equal sides exactly and perturbed by 1e-15..1e-9). Per mesh: every tetrahedron volume > 0 (clearly non-degenerate away "
                 "from class boundaries), sum of volumes = convex-hull volume (1e-9), no repeated/duplicate elements, all vertices used, "
                 "vertices inside the analytic shape, boundary potentials 0, medial potentials = inradius and at that depth, box/cube exact; "
                 "volume/AABB/centre-of-mass helpers = direct computation; RigidBody.make_* = factory + pose."
                 " Conforming tiling: every triangular face belongs to two tetrahedra, or to one and then lies on the hull boundary."),
        "design_ref": "DESIGN.md 5 C17",
        "note": "Trusted: scipy ConvexHull volume. Orientation of the tetrahedra is not constrained by the statement (sphere/ellipsoid/cube are wound negatively; recorded in the evidence).",
        "technique": "exhaustive enumeration of factory parameter lattices on the real code vs determinant/hull-volume/analytic-shape reference",
    },
    "C15": {
        "text": ("(a) 3 reference tetrahedra (right corner, regular, sliver) x 3 partner tetrahedra x 26 rotations (all 24 cube rotations: faces "
                 "parallel to the contact plane) x 125 lattice translations (shared faces, containment, touching; + 54 translations with faces 1e-7 apart, + 6 rotations with both "
                 "tetrahedra 700 units from the origin) x 3 Young's modulus pairs, "
                 "intersect_tetrahedron_pair in both argument orders; (b) 36 factory body pairs x 6 placements (axis-aligned stacking, deep, "
                 "offset, side, touching, separated) x orientations x moved frames, every reported tetrahedron pair of find_contact_surface. "
                 "Per polygon: vertices on the plane and inside both tetrahedra (independent barycentric solve >= -1e-9), convex, area = "
                 "reported area, force along the normal with non-negative pressure, same polygon (as a point set) for swapped order; separated "
                 "bodies: no intersection, zero wrenches."),
        "design_ref": "DESIGN.md 5 C15",
        "note": "Order dependence is only judged for polygons of area > 1e-6 (the library's own intersection tolerance); KF-C15-coincident-face-order matched by exact state.",
        "technique": "bounded-exhaustive enumeration of tetrahedron-pair and body-pair placements on the real code vs independent barycentric/plane/convexity checks",
    },
    "C16": {
        "text": ("(a) Explicit-state search over call histories on live bodies: 4 bodies (a, b, c in another rotated frame, d = b shifted by < 2 mm) "
                 "x 24 operations (contact_forces, contact_forces(return_details=True), find_contact_surface(use_aabb_trees=True) on the 8 "
                 "ordered pairs with contact), breadth-first with canonical-state de-duplication (frame of every body + filled private "
                 "attributes) to depth 3 (thorough 4) from 8 scenes (4 factory pairs x {origin, rotated frame 1e3 units away}); every "
                 "transition must equal the same call on fresh bodies (1e-6 relative) and afterwards every filled cache must equal its "
                 "recomputed value. (b) 36 factory body pairs x 4 contact placements x rotations of body 1 and of body 2 (general, not just identity): for each scene "
                 "the transition relations f12 = -f21, swap of the bodies swaps the wrenches, 5 common rigid motions rotate the forces, repeated "
                 "call on the re-expressed bodies, 6 interleaved call histories (length <= 3) with a third body, and the tree broad phase "
                 "(use_aabb_trees=True) = brute-force pair set, each within 5% of |f| with unchanged intersection flag."),
        "design_ref": "DESIGN.md 5 C16",
        "note": "Sphere bodies (make_sphere takes a centre only, so the mesh does not rotate with the scene) are compared under translations only. Flag flips of zero-area grazing contacts are ignored.",
        "technique": "explicit-state breadth-first search over call histories of live RigidBody objects (canonical-state de-duplication, fresh-object differential oracle, cache invariants) + bounded-exhaustive enumeration of body-pair scenes x transition relations",
    },
    "C12": {
        "text": ("Metamorphic transition relations on ~1.26e4 states (scene lattice with <= 1 deviation for all 100 type pairs + penetrating "
                 "placements; every primitive pair of the 34 distance functions): argument swap, 8 proper rigid motions (cube rotations, "
                 "generic and nearly aligned rotations, translations (1,2,3), (1e3,0,0), (-300,200,100)) applied to both arguments, and "
                 "uniform scalings that keep the scene in the domain. Compared: gjk.gjk / original / Nesterov / primitives distances and "
                 "the boolean tests (certified-margin scenes only), and the 34 distance functions, within the tolerance of the owning "
                 "property scaled by the factor. ~1.1e6 executions."),
        "design_ref": "DESIGN.md 5 C12",
        "note": "Only scalar/boolean outputs are compared (closest points and directions are not unique on the lattice); MPR depth is excluded (not a function of the geometry when the origin ray passes through an edge). KF-C12 matched by exact state.",
        "technique": "bounded-exhaustive enumeration of states x transformation set; original-vs-transformed relation on the real code (no reference values)",
    },
    "C20": {
        "text": ("A corpus of ~9e3 call descriptors drawn from the quick corpora of the other properties (support functions, AABBs, all GJK "
                 "flavours, boolean tests, EPA, the 34 primitive distance functions on their full alphabets, containment predicates, simplex "
                 "solvers on lattice multisets, AABB-tree histories incl. empty trees, tetrahedron-pair intersection, hydroelastic body "
                 "pairs, mesh factories, the jitted utilities of utils / geometry / minkowski; ~9.5e4 library calls; thorough: 1.25e5 descriptors) is executed in three fresh interpreter processes - JIT, NUMBA_DISABLE_JIT=1, "
                 "JIT + NUMBA_BOUNDSCHECK=1 - and compared call by call (closed forms 1e-9, iterative solvers at their property's "
                 "tolerance, booleans on certified-margin scenes, exception types); plus the import obligation with the JIT on."),
        "design_ref": "DESIGN.md 5 C20",
        "note": "MPR depth is not compared across modes (not a function of the geometry, see C12). Undefined behaviour of compiled out-of-bounds reads is decided by the bounds-checked mode.",
        "technique": "differential execution of an enumerated call corpus in three execution modes, per-call comparison",
    },
}
