"""Per-property registration used to generate MANIFEST.json (tools/gen_manifest.py)."""

NOTES = ("All checks are bounded-exhaustive explorations of the real code against a reference model; "
         "see DESIGN.md. Known genuine defects are listed in known_findings.json.")

NOT_APPLICABLE = {}

CHECKS = {
    "C18": {
        "text": ("Every configuration of 1..4 points with coordinates in {-1,0,1} in every ordering (551880 ordered "
                 "configurations, complete) is executed on both real simplex solvers and compared with an exact "
                 "rational minimum-norm oracle (norm, subset hull membership, weights); thorough adds {-2..2} for "
                 "k<=3 and five anisotropic/uniform scalings. A finite case space enumerated completely is the "
                 "strongest statement this family can make."),
        "design_ref": "DESIGN.md 5 C18",
        "note": "Trusted: CPython fractions, numpy; bounded to the stated lattices (nothing is claimed for off-lattice inputs).",
        "technique": "explicit-state exhaustive enumeration of the input lattice on the real code vs exact rational reference model",
    },
}
