"""Shared constructors for the hydroelastic properties C15 / C16."""
import numpy as np

from . import scenes as sc

FACTORIES = ["sphere", "ellipsoid", "cube", "box", "cylinder", "capsule"]


def make_body(fac, T, k=1.0, E=1.0):
    from distance3d.hydroelastic_contact import RigidBody
    T = np.ascontiguousarray(np.array(T, dtype=float))
    if fac == "sphere":
        rb = RigidBody.make_sphere(T[:3, 3].copy(), 0.5 * k, 1)
    elif fac == "ellipsoid":
        rb = RigidBody.make_ellipsoid(T.copy(), np.array([0.5, 0.4, 0.3]) * k, 1)
    elif fac == "cube":
        rb = RigidBody.make_cube(T.copy(), 1.0 * k)
    elif fac == "box":
        rb = RigidBody.make_box(T.copy(), np.array([1.0, 0.8, 0.6]) * k)
    elif fac == "cylinder":
        rb = RigidBody.make_cylinder(T.copy(), 0.4 * k, 1.0 * k, resolution_hint=0.5 * k)
    elif fac == "capsule":
        rb = RigidBody.make_capsule(T.copy(), 0.3 * k, 0.8 * k, resolution_hint=0.5 * k)
    else:
        raise ValueError(fac)
    rb.youngs_modulus = E
    return rb


def half_height(fac, k=1.0):
    """Extent of the body along its local z axis from its centre."""
    return {"sphere": 0.5, "ellipsoid": 0.3, "cube": 0.5, "box": 0.3, "cylinder": 0.5, "capsule": 0.7}[fac] * k


def rigid(o, t):
    return sc.pose(o, np.asarray(t, dtype=float))


def compose(G, T):
    return np.ascontiguousarray(G @ T)
