"""Instrumentation from outside: shadow bound methods on the instance (type(c) is
unchanged so type-dispatched fast paths are still taken)."""
import numpy as np


class BudgetExceeded(Exception):
    pass


class Counter:
    def __init__(self, budget=1000):
        self.n = 0
        self.budget = budget
        self.log = None

    def reset(self):
        self.n = 0


def instrument(colliders, budget=1000, log=False):
    """Wrap support_function of each distinct collider object; returns Counter."""
    ctr = Counter(budget)
    if log:
        ctr.log = []
    seen = set()
    for idx, c in enumerate(colliders):
        if id(c) in seen:
            continue
        seen.add(id(c))
        orig = c.support_function

        def wrapped(d, _orig=orig, _idx=idx):
            ctr.n += 1
            if ctr.n > ctr.budget:
                raise BudgetExceeded("more than %d support evaluations" % ctr.budget)
            p = _orig(d)
            if ctr.log is not None:
                ctr.log.append((_idx, np.array(d, dtype=float), np.array(p, dtype=float)))
            return p
        c.support_function = wrapped
    return ctr


def uninstrument(colliders):
    for c in colliders:
        c.__dict__.pop("support_function", None)


def finite(x):
    if x is None:
        return True
    try:
        return bool(np.all(np.isfinite(np.asarray(x, dtype=float))))
    except (TypeError, ValueError):
        return True
