"""Generated URDF models for the BVH / self-collision exploration (C06)."""

def _link(name, geoms):
    s = '<link name="%s">' % name
    for g in geoms:
        s += '<collision><origin xyz="%s" rpy="%s"/><geometry>%s</geometry></collision>' % g
    return s + '</link>'


def _joint(name, typ, parent, child, xyz, axis, rpy="0 0 0", lim=(-2.0, 2.0)):
    return ('<joint name="%s" type="%s"><parent link="%s"/><child link="%s"/><origin xyz="%s" rpy="%s"/>'
            '<axis xyz="%s"/><limit lower="%g" upper="%g"/></joint>' % (name, typ, parent, child, xyz, rpy, axis, lim[0], lim[1]))


BOX = '<box size="%s"/>'
CYL = '<cylinder radius="%g" length="%g"/>'
SPH = '<sphere radius="%g"/>'

ROBOTS = {}

# 3-link chain folding onto itself
ROBOTS["chain3"] = {
    "urdf": '<?xml version="1.0"?><robot name="chain3">'
            + _link("base", [("0 0 0.1", "0 0 0", BOX % "0.4 0.4 0.2")])
            + _link("l1", [("0 0 0.3", "0 0 0", CYL % (0.08, 0.6))])
            + _link("l2", [("0.3 0 0", "0 1.5707963267948966 0", CYL % (0.07, 0.6)), ("0.6 0 0", "0 0 0", SPH % 0.1)])
            + _link("l3", [("0.25 0 0", "0 0 0", BOX % "0.5 0.1 0.1")])
            + _joint("j1", "revolute", "base", "l1", "0 0 0.2", "0 0 1")
            + _joint("j2", "revolute", "l1", "l2", "0 0 0.6", "0 1 0")
            + _joint("j3", "revolute", "l2", "l3", "0.6 0 0", "0 1 0", lim=(-3.0, 3.0))
            + '</robot>',
    "joints": {"j1": [0.0, 1.1, -2.0], "j2": [0.0, 1.4, -1.4], "j3": [0.0, 2.8, -2.8]},
}

# 4-link chain with a prismatic joint
ROBOTS["chain4"] = {
    "urdf": '<?xml version="1.0"?><robot name="chain4">'
            + _link("base", [("0 0 0.05", "0 0 0", BOX % "1.0 1.0 0.1")])
            + _link("a", [("0 0 0.25", "0 0 0", BOX % "0.1 0.1 0.5")])
            + _link("b", [("0.2 0 0", "0 0 0", BOX % "0.4 0.08 0.08")])
            + _link("c", [("0 0 -0.15", "0 0 0", CYL % (0.05, 0.3))])
            + _link("d", [("0 0 0", "0 0 0", SPH % 0.08)])
            + _joint("ja", "revolute", "base", "a", "0 0 0.1", "0 0 1")
            + _joint("jb", "revolute", "a", "b", "0 0 0.5", "0 1 0")
            + _joint("jc", "prismatic", "b", "c", "0.4 0 0", "0 0 1", lim=(-0.5, 0.5))
            + _joint("jd", "prismatic", "c", "d", "0 0 -0.3", "0 0 1", lim=(-0.5, 0.5))
            + '</robot>',
    "joints": {"ja": [0.0, 1.5707963267948966], "jb": [0.0, 1.2, 1.5707963267948966], "jc": [0.0, -0.2, 0.4], "jd": [0.0, -0.12, 0.3]},
}

# branching tree: two arms on one torso (generated whitelists become asymmetric)
ROBOTS["tree"] = {
    "urdf": '<?xml version="1.0"?><robot name="tree">'
            + _link("torso", [("0 0 0.3", "0 0 0", BOX % "0.3 0.5 0.6")])
            + _link("left", [("0.25 0 0", "0 1.5707963267948966 0", CYL % (0.06, 0.5))])
            + _link("right", [("0.25 0 0", "0 1.5707963267948966 0", CYL % (0.06, 0.5))])
            + _link("lhand", [("0.1 0 0", "0 0 0", SPH % 0.09)])
            + _link("rhand", [("0.1 0 0", "0 0 0", BOX % "0.2 0.12 0.12")])
            + _joint("jl", "revolute", "torso", "left", "0 0.3 0.5", "0 0 1")
            + _joint("jr", "revolute", "torso", "right", "0 -0.3 0.5", "0 0 1")
            + _joint("jlh", "revolute", "left", "lhand", "0.5 0 0", "0 1 0")
            + _joint("jrh", "revolute", "right", "rhand", "0.5 0 0", "0 1 0")
            + '</robot>',
    "joints": {"jl": [0.0, -0.55, -1.5707963267948966], "jr": [0.0, 0.55, 1.5707963267948966], "jlh": [0.0, 1.0], "jrh": [0.0, -1.0]},
}


# gripper: link names that are prefixes of each other (gripper, gripper_left, gripper_right), child links declared BEFORE their
# parent, two children on one link (asymmetric generated whitelists), fingers that collide with the palm and with each other,
# mounted far from the origin on a rotated base (base_frame2origin != identity) with a 4 mm prismatic jog
ROBOTS["hand"] = {
    "urdf": '<?xml version="1.0"?><robot name="hand">'
            + _link("gripper_left", [("0 0 0.15", "0 0 0", BOX % "0.06 0.06 0.3")])
            + _link("gripper_right", [("0 0 0.15", "0 0 0", BOX % "0.06 0.06 0.3")])
            + _link("gripper", [("0 0 0", "0 0 0", BOX % "0.3 0.4 0.1")])
            + _link("wrist", [("0 0 -0.15", "0 0 0", CYL % (0.05, 0.2))])
            + _joint("gw", "revolute", "wrist", "gripper", "0 0 0", "0 0 1")
            + _joint("gr", "prismatic", "gripper", "gripper_right", "0 -0.12 0.06", "0 0.7071067811865476 -0.7071067811865476", lim=(-0.5, 0.5))
            + _joint("gl", "revolute", "gripper", "gripper_left", "0 0.12 0.06", "1 0 0")
            + '</robot>',
    "joints": {"gw": [0.0, 0.8], "gl": [0.0, 1.45], "gr": [0.0, 0.1, 0.004]},
    "base": (25, (800.0, 500.0, 300.0)),
    "extras": False,
    "parents": {"gripper": "wrist", "gripper_left": "gripper", "gripper_right": "gripper"},
}
ROBOTS["chain3"]["parents"] = {"l1": "base", "l2": "l1", "l3": "l2"}
ROBOTS["chain4"]["parents"] = {"a": "base", "b": "a", "c": "b", "d": "c"}
ROBOTS["tree"]["parents"] = {"left": "torso", "right": "torso", "lhand": "left", "rhand": "right"}


# thorough tier: finer joint lattices (the quick values plus intermediate / limit positions)
ROBOTS["chain3"]["joints_thorough"] = {"j1": [0.0, 1.1, -2.0, 3.0, -0.6], "j2": [0.0, 1.4, -1.4, 0.7, -2.6], "j3": [0.0, 2.8, -2.8, 1.57, -1.57]}
ROBOTS["chain4"]["joints_thorough"] = {"ja": [0.0, 1.5707963267948966, -0.8, 3.0], "jb": [0.0, 1.2, 1.5707963267948966, -1.0, 2.4],
                                       "jc": [0.0, -0.2, 0.4, -0.45, 0.2], "jd": [0.0, -0.12, 0.3, -0.3, 0.45]}
ROBOTS["tree"]["joints_thorough"] = {"jl": [0.0, -0.55, -1.5707963267948966, -1.1, 0.4], "jr": [0.0, 0.55, 1.5707963267948966, 1.1, -0.4],
                                     "jlh": [0.0, 1.0, -1.0, 2.2], "jrh": [0.0, -1.0, 1.0, -2.2]}
ROBOTS["hand"]["joints_thorough"] = {"gw": [0.0, 0.8, -1.6, 2.0], "gl": [0.0, 1.45, 0.7, -0.5, 1.2], "gr": [0.0, 0.1, 0.004, -0.05, 0.2, 0.104]}
