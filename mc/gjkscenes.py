"""Scenes (pairs of colliders with constructed ground truth) shared by the
narrow-phase properties C01, C02, C07, C08, C09, C12, C19, C20.

A scene descriptor is a dict of small integers
  ta,sa,oa,fa,ma : type, size, orientation, offset, margin flag of A
  tb,sb,ob,mb    : type, size, orientation, margin flag of B
  pl             : placement index (see PLACEMENTS)
  u              : direction index (scenes.DIRS)
B's position is derived from the placement:
  sep(g):  B is translated so that its arg-support point along -u coincides with
           argsup_A(u) + g*u  ->  two parallel supporting planes prove dist(A,B) = g
  ovl(w):  B is translated so that its anchor point (known depth) coincides with
           A's anchor + w  ->  a common point with known depth in both
  deep:    B's anchor is put on A's boundary point argsup_A(u)
  identical / same object.
"""
import numpy as np

from . import scenes as sc

# (kind, parameter)
PLACEMENTS = [
    ("sep", 1.0),        # 0 default
    ("sep", 0.0),        # 1 exact touching
    ("sep", 1e-6),       # 2 inside the tolerance band of C01
    ("sep", 1e-3),       # 3
    ("sep", 0.1),        # 4
    ("sep", "rel"),      # 5 2.5*(sizeA+sizeB), capped at 250
    ("sep", 300.0),      # 6 just below sqrt(max_distance_squared)
    ("ovl", 0),          # 7 anchors coincide
    ("ovl", 1),          # 8 anchors offset along x by 0.3*min depth
    ("ovl", 2),          # 9 anchors offset along u by 0.3*min depth
    ("deep", None),      # 10 B's anchor on A's boundary
    ("identical", None), # 11 equal parameters, separate objects
    ("same", None),      # 12 the same object passed twice
    ("sep", 2e-2),       # 13
    ("sepL", 1.5),       # 14 gap = 1.5 * 1e-3 * Lhint  (just outside the grazing band of C02)
    ("sepL", 30.0),      # 15
    # ---- extended placements (not used by C01/C02/C09: overlap is not certified by construction)
    ("pen", 0.2),        # 16 supporting planes along u interpenetrate by 0.2*min(size)
    ("pen", 0.02),       # 17
    ("pen", 0.5),        # 18
    ("pen", 1e-6),       # 19 very shallow interpenetration (below the 1e-6 bias of EPA's winding test)
    ("pen", 1e-7),       # 20
]
N_PL = 16

COORDS = ["sa", "sb", "oa", "ob", "fa", "ma", "mb", "pl", "u"]


def alphabet_sizes(ta, tb):
    return [sc.n_sizes(ta), sc.n_sizes(tb), len(sc.ROTS), len(sc.ROTS), len(sc.OFFSETS), 2, 2, N_PL, len(sc.DIRS)]


def enumerate_pair(ta, tb, bound, extra=()):
    out = []
    for tup in sc.deviation_product(alphabet_sizes(ta, tb), bound):
        d = {"ta": ta, "tb": tb}
        d.update(dict(zip(COORDS, tup)))
        out.append(d)
    return out


def build(desc, want_impl=True):
    """Returns dict(A, B (colliders), rA, rB (ref shapes), truth)."""
    ta, tb = desc["ta"], desc["tb"]
    u = sc.DIRS[desc["u"]]
    cA = sc.OFFSETS[desc["fa"]]
    mA = sc.margin_value(ta, desc["sa"], desc["ma"])
    mB = sc.margin_value(tb, desc["sb"], desc["mb"])
    A, rA = sc.build(ta, desc["sa"], desc["oa"], cA, mA, want_impl=want_impl)
    kind, par = PLACEMENTS[desc["pl"]]
    truth = {"kind": kind}
    if kind in ("identical", "same"):
        if kind == "same":
            B, rB = A, rA
        else:
            B, rB = sc.build(ta, desc["sa"], desc["oa"], cA, mA, want_impl=want_impl)
        p, dep = rA.anchor()
        truth.update(overlap=True, common=p, depth=dep, depthA=dep, depthB=dep)
        cB = cA
    else:
        _, rB0 = sc.build(tb, desc["sb"], desc["ob"], np.zeros(3), mB, want_impl=False)
        if kind in ("sep", "sepL"):
            if kind == "sepL":
                Lh = max(1.0, rA.size(), rB0.size(), float(np.linalg.norm(rA.centre())) + rA.bound_radius() + 2 * rB0.bound_radius() + 1.0)
                g = min(250.0, par * 1e-3 * Lh)
                kind = "sep"
                truth["kind"] = "sep"
            elif par == "rel":
                g = min(250.0, 2.5 * (rA.size() + rB0.size()))
            else:
                g = float(par)
            a_star = rA.argsup(u)
            b_star0 = rB0.argsup(-u)
            cB = a_star + g * u - b_star0
            truth.update(overlap=False, gap=g, a_star=a_star, b_star=a_star + g * u, u=u)
        elif kind == "ovl":
            pA, dA = rA.anchor()
            pB0, dB = rB0.anchor()
            m = min(dA, dB)
            w = [np.zeros(3), np.array([0.3 * m, 0.0, 0.0]), 0.3 * m * u][par]
            cB = pA + w - pB0
            truth.update(overlap=True, common=pA + w, depthA=dA - float(np.linalg.norm(w)), depthB=dB)
            truth["depth"] = min(truth["depthA"], truth["depthB"])
        elif kind == "pen":
            p = par * min(rA.size(), rB0.size())
            a_star = rA.argsup(u)
            b_star0 = rB0.argsup(-u)
            cB = a_star - p * u - b_star0
            truth.update(overlap=None, pen=p, u=u, a_star=a_star)
        elif kind == "deep":
            pB0, dB = rB0.anchor()
            a_star = rA.argsup(u)
            cB = a_star - pB0
            truth.update(overlap=True, common=a_star, depthA=0.0, depthB=dB, depth=0.0)
        else:
            raise ValueError(kind)
        B, rB = sc.build(tb, desc["sb"], desc["ob"], cB, mB, want_impl=want_impl)
    # L = "size scale of the pair" (C01): feature sizes and mutual centre distance; the position in the world does not enter
    # (until this was measured to hold on the unchanged tree for C01, C02, C07-C09 and C12, the looser max with the distance
    # from the origin was used; VERIF_L_WORLD=1 restores it for experiments)
    L = max(1.0, rA.size(), rB.size(), float(np.linalg.norm(rA.centre() - rB.centre())))
    truth["L"] = L
    truth["L_world"] = max(L, float(np.linalg.norm(rA.centre())), float(np.linalg.norm(rB.centre())))
    if __import__("os").environ.get("VERIF_L_WORLD"):
        truth["L"] = truth["L_world"]
    if kind == "pen":
        # certify the overlap by an inscribed ball: a point with a ball of radius rho inside both shapes is a common point of depth rho
        best, bp = 0.0, None
        pA, _ = rA.anchor()
        pB, _ = rB.anchor()
        cands = [truth["a_star"] - f * truth["pen"] * u for f in (0.25, 0.5, 0.75)]
        cands += [(1 - lam) * pA + lam * pB for lam in np.linspace(0.0, 1.0, 21)]
        cands += [truth["a_star"] - 0.5 * truth["pen"] * u + lam * (q - truth["a_star"]) for q in (pA, pB) for lam in (0.1, 0.25, 0.5)]
        for q in cands:
            r = min(rA.inball(q), rB.inball(q))
            if r > best:
                best, bp = r, q
        if best > 0.0:
            truth.update(overlap=True, common=bp, depthA=best, depthB=best, depth=best)
    same = kind in ("identical", "same")
    spec = {"A": (ta, sc.SIZES[ta][desc["sa"]], sc.pose(desc["oa"], cA), mA),
            "B": ((ta, sc.SIZES[ta][desc["sa"]], sc.pose(desc["oa"], cA), mA) if same else
                  (tb, sc.SIZES[tb][desc["sb"]], sc.pose(desc["ob"], cB), mB))}
    return {"A": A, "B": B, "rA": rA, "rB": rB, "truth": truth, "spec": spec}


def enumerate_custom(ta, tb, alph, bound):
    """alph: ordered dict coordinate -> list of values (first = default); all assignments with <= bound deviations."""
    names = list(alph)
    out = []
    for tup in sc.deviation_product([len(alph[n]) for n in names], bound):
        d = {"ta": ta, "tb": tb}
        for n, i in zip(names, tup):
            d[n] = alph[n][i]
        for n in COORDS:
            d.setdefault(n, 0)
        out.append(d)
    return out


def pair_class(desc):
    if PLACEMENTS[desc["pl"]][0] in ("identical", "same"):
        return "%s%s-%s%s" % (desc["ta"], "+m" if desc["ma"] else "", desc["ta"], "+m" if desc["ma"] else "")
    return "%s%s-%s%s" % (desc["ta"], "+m" if desc["ma"] else "", desc["tb"], "+m" if desc["mb"] else "")


def dsig(desc):
    """Compact descriptor string used for descriptor-level known-finding signatures."""
    return ",".join("%s=%s" % (k, desc[k]) for k in ("ta", "tb") + tuple(COORDS))


def in_domain(desc, s):
    """Domain D: centres within 1e3 of the origin."""
    return (np.linalg.norm(s["rA"].centre()) <= 1.2e3) and (np.linalg.norm(s["rB"].centre()) <= 1.2e3)


def nontrivial_key(desc):
    """A scene is counted non-trivial when it is degenerate in some way: non-generic direction, exact touching /
    coincidence, cube-rotation alignment."""
    return [desc[k] for k in ("ta", "tb") + tuple(COORDS)]


def is_degenerate(desc):
    kind, par = PLACEMENTS[desc["pl"]]
    return (desc["u"] not in (0, 27, 28, 29, 30)) or kind not in ("sep", "sepL") or par in (0.0, 1e-6)


def flat_plane_contains_other_centre(rA, rB, L):
    """The degenerate configuration of the recorded MPR finding (KF-C02-mpr-coplanar-flat): one collider is flat (disk, ellipse,
    not wrapped in a margin) and the centre of the other collider lies in its plane, so the origin ray of MPR lies in the plane of a
    flat part of the Minkowski difference and every portal decision v.n ~ 0 is taken on rounding noise."""
    for F, O in ((rA, rB), (rB, rA)):
        kind = getattr(F, "kind", "")
        if kind == "disk":
            n = np.asarray(F.n, dtype=float)
        elif kind == "ellipse":
            n = np.cross(F.axes[0], F.axes[1])
        else:
            continue
        n = n / np.linalg.norm(n)
        if abs(float(n @ (np.asarray(O.centre(), dtype=float) - np.asarray(F.centre(), dtype=float)))) <= 1e-9 * L:
            return True
    return False


def mpr_expand_portal_exact_tie(A, B):
    """Symptom of the recorded finding KF-C02-mpr-symmetry-plane-tie: during portal refinement one of the triple products that
    decide which portal vertex `_expand_portal` replaces is exactly 0 (the new support point, the centre of the Minkowski
    difference and a portal vertex are coplanar with the origin).  The refinement is re-played with the library's own functions."""
    from distance3d import mpr
    from distance3d.minkowski import support_function
    try:
        res, portal = mpr._discover_portal(A, B, 100)
        if res != mpr.PortalState.PORTAL_WAS_BUILT:
            return False
        tie = False
        for _ in range(200):
            sd = mpr._portal_direction(portal.v)
            if mpr._encapsulates_origin(portal.v[1], sd):
                return tie
            v4, v41, v42 = support_function(A, B, sd)
            if (not mpr._encapsulates_origin(v4, sd)) or mpr._portal_reach_tolerance(portal.v, v4, sd, 0.0001):
                return tie
            v4v0 = np.cross(v4, portal.v[0])
            if any(float(portal.v[i].dot(v4v0)) == 0.0 for i in (1, 2, 3)):
                tie = True
            mpr._expand_portal(portal.v, portal.v1, portal.v2, v4, v41, v42)
        return tie
    except Exception:  # noqa
        return False
