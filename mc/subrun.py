"""Run a reduced exploration of a check module in another execution mode
(NUMBA_BOUNDSCHECK=1 or NUMBA_DISABLE_JIT=1) in a fresh interpreter process."""
import json
import os
import subprocess
import sys
import time

from . import bootstrap

_MOD = None


def _one(desc):
    from . import runner
    if runner._CONST_SNAPSHOT is None:
        runner._check_module_constants({})
    r = _MOD.run_state(desc)
    runner._check_module_constants(r)      # in interpreted mode a write to a module-level array persists between calls
    return r


def run(modname, mode, tier, seed, nproc=8, func="sub_states"):
    env = dict(os.environ)
    env["VERIF_MODE"] = mode
    env.pop("VERIF_NUMBA_CACHE", None)
    env.pop("VERIF_NUMBA_CACHE_MODE", None)
    env.pop("NUMBA_DISABLE_JIT", None)
    env.pop("NUMBA_BOUNDSCHECK", None)
    env["VERIF_TIER"] = tier
    env["VERIF_SEED"] = str(seed)
    env["VERIF_NPROC"] = str(nproc)
    p = subprocess.run([sys.executable, "-W", "ignore", "-m", "mc.subrun", modname, mode, func], env=env, cwd=bootstrap.VERIF,
                       stdout=subprocess.PIPE, stderr=subprocess.PIPE, text=True)
    lines = [l for l in p.stdout.splitlines() if l.startswith("SUBRUN-JSON ")]
    if p.returncode != 0 or not lines:
        raise RuntimeError("subrun %s/%s failed rc=%s\n%s\n%s" % (modname, mode, p.returncode, p.stdout[-2000:], p.stderr[-4000:]))
    return json.loads(lines[-1][len("SUBRUN-JSON "):])


def main(argv):
    global _MOD
    modname, mode, func = argv[0], argv[1], argv[2]
    t0 = time.time()
    bootstrap.init(mode)
    import warnings
    warnings.filterwarnings("ignore")
    import importlib
    from . import pool, runner
    mod = importlib.import_module("mc.props." + modname)
    _MOD = mod
    mod.warmup()
    states = getattr(mod, func)(mode, bootstrap.tier())
    out = {"viol": [], "states": len(states), "transitions": 0, "evaluations": 0}

    def on_result(desc, r):
        out["transitions"] += r.get("n_trans", 1)
        out["evaluations"] += r.get("n_eval", 1)
        for v in r.get("viol", ()):
            out["viol"].append((desc, v))
        if "obs" in r:
            out.setdefault("obs", []).append((desc, r["obs"]))
    ab = pool.run_chunks(_one, pool.chunked(states, getattr(mod, "SUB_CHUNK", 4)), timeout=getattr(mod, "STATE_TIMEOUT", 120.0),
                         on_result=on_result)
    for desc, status, payload in ab:
        out["viol"].append((desc, {"kind": status, "entry": "process", "sig": "%s:%s" % (status, runner._hash(desc)), "detail": payload}))
    out["wall_s"] = round(time.time() - t0, 2)
    print("SUBRUN-JSON " + runner.dumps(out))
    return 0


if __name__ == "__main__":
    sys.exit(main(sys.argv[1:]))
