"""Recognition of the exact symptoms of the recorded, unrepaired defects of distance3d.distance.

known_findings.json may only silence a violation that *is* the recorded defect.  For the three non-global algorithms the
record is therefore tied to a recognisable symptom (the returned value equals what the documented, known-defective
procedure yields), not to the function name: a different way of being wrong in the same function is still reported.
"""
import numpy as np


def _proj_disk(q, c, r, n):
    """Exact projection of q onto the disk (centre c, radius r, unit normal n)."""
    q, c, n = np.asarray(q, dtype=float), np.asarray(c, dtype=float), np.asarray(n, dtype=float)
    v = q - c
    v = v - float(v @ n) * n
    ln = float(np.linalg.norm(v))
    if ln > r:
        v = v * (r / ln)
    return c + v


def segment_circle_clamped_line_solution(A, B, d, L):
    """True if d equals the value of the documented procedure of line_segment_to_circle: closest point of the INFINITE line
    (library's line_to_circle, trusted here as the building block), clamped to the segment end when it falls outside."""
    from distance3d import distance as D
    a, b = np.asarray(A.a, dtype=float), np.asarray(A.b, dtype=float)
    from distance3d.geometry import convert_segment_to_line
    u, length = convert_segment_to_line(a.copy(), b.copy())     # the library's own normalisation (a 1-ulp difference can flip a tie)
    u, length = np.asarray(u, dtype=float), float(length)
    try:
        dl, cps, cpc = D.line_to_circle(a.copy(), u.copy(), *B.args())
    except Exception:  # noqa
        return False
    t = float((np.asarray(cps, dtype=float) - a) @ u)
    if t < 0.0:
        k = B.dist(a)
    elif t > length:
        k = B.dist(b)
    else:
        k = float(dl)
    return abs(float(d) - k) <= 1e-9 * L


def disk_disk_alternating_projection_iterate(A, B, d, p1, p2, L):
    """True if (p1, p2) is an iterate of the alternating projection: p2 is the exact projection of p1 onto disk 2, p1 lies on
    disk 1 and is (up to the stopping threshold of the iteration) the projection of p2, with d = |p1 - p2| > 0."""
    if not d > 0:
        return False
    p1, p2 = np.asarray(p1, dtype=float), np.asarray(p2, dtype=float)
    q2 = _proj_disk(p1, B.ref.c, B.ref.r, B.ref.n)
    q1 = _proj_disk(p2, A.ref.c, A.ref.r, A.ref.n)
    return float(np.linalg.norm(q2 - p2)) <= 1e-9 * L and A.dist(p1) <= 1e-9 * L and float(np.linalg.norm(q1 - p1)) <= 0.05 * L \
        and abs(float(np.linalg.norm(p1 - p2)) - float(d)) <= 1e-9 * L


def ellipsoid_surface_query_inside(A, B):
    """True if the query point lies strictly inside the ellipsoid (the recorded defect of distance_to_surface=True)."""
    return B.dist(A.p) == 0.0 and B.on_surface(A.p) > 1e-9


def known_symptom(name, A, B, d, p1, p2, L):
    """Suffix for the signature of a violation of `name`, or None."""
    try:
        if name == "line_segment_to_circle" and segment_circle_clamped_line_solution(A, B, d, L):
            return "clamped_line_solution"
        if name == "disk_to_disk" and disk_disk_alternating_projection_iterate(A, B, d, p1, p2, L):
            return "alternating_projection_iterate"
        if name == "point_to_ellipsoid_surface" and ellipsoid_surface_query_inside(A, B):
            return "query_point_inside"
    except Exception:  # noqa
        return None
    return None
