"""Known findings: committed file, never written at run time.

An entry suppresses a violation only if it has status 'known', the property id
agrees and the violation's signature (entry point : symptom class : input class)
matches one of the entry's signature patterns.  'fixed' entries suppress
nothing."""
import fnmatch
import json
import os

from . import bootstrap

PATH = os.path.join(bootstrap.VERIF, "known_findings.json")


def load():
    try:
        with open(PATH) as f:
            return json.load(f)["findings"]
    except FileNotFoundError:
        return []


def match(kf, pid, v):
    sig = v.get("sig") or ""
    dsig = v.get("dsig") or ""
    for f in kf:
        if f.get("status") != "known" or f.get("property") != pid:
            continue
        for pat in f.get("signatures", []):
            if fnmatch.fnmatchcase(sig, pat) or (dsig and fnmatch.fnmatchcase(dsig, pat)):
                return f
    return None
