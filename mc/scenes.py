"""Alphabets and constructors: every descriptor is instantiated twice, once as a
distance3d collider and once as a reference-model shape."""
import itertools
import math

import numpy as np

from .refmodel import shapes as rs

TYPES = ["sphere", "ellipsoid", "capsule", "cylinder", "cone", "box", "disk", "ellipse", "mesh", "hull"]

# ------------------------------------------------------------------ rotations


def _cube_rotations():
    out = []
    for perm in itertools.permutations(range(3)):
        for signs in itertools.product((1, -1), repeat=3):
            R = np.zeros((3, 3))
            for i in range(3):
                R[i, perm[i]] = signs[i]
            if round(np.linalg.det(R)) == 1:
                out.append(R)
    # identity first
    out.sort(key=lambda R: (not np.array_equal(R, np.eye(3)), R.tolist()))
    return out


def _quat_rot(w, x, y, z):
    n = w * w + x * x + y * y + z * z
    return np.array([
        [(w * w + x * x - y * y - z * z) / n, 2 * (x * y - w * z) / n, 2 * (x * z + w * y) / n],
        [2 * (x * y + w * z) / n, (w * w - x * x + y * y - z * z) / n, 2 * (y * z - w * x) / n],
        [2 * (x * z - w * y) / n, 2 * (y * z + w * x) / n, (w * w - x * x - y * y + z * z) / n]])


def _rz(a):
    c, s = math.cos(a), math.sin(a)
    return np.array([[c, -s, 0.0], [s, c, 0.0], [0.0, 0.0, 1.0]])


def _rx(a):
    c, s = math.cos(a), math.sin(a)
    return np.array([[1.0, 0.0, 0.0], [0.0, c, -s], [0.0, s, c]])


CUBE_ROTS = _cube_rotations()
GENERIC_ROTS = [_quat_rot(1, 2, 2, 4), _quat_rot(3, 1, -2, 1), _rz(math.pi / 6), _rx(0.7) @ _rz(1.1)]


def _axis_angle(axis, a):
    axis = np.asarray(axis, dtype=float)
    axis = axis / np.linalg.norm(axis)
    K = np.array([[0, -axis[2], axis[1]], [axis[2], 0, -axis[0]], [-axis[1], axis[0], 0]])
    return np.eye(3) + math.sin(a) * K + (1 - math.cos(a)) * (K @ K)


# nearly-but-not-exactly aligned orientations: they sit just off the sign/zero boundaries of the case
# analyses and inside the range where tolerance guards (eps tests on 1-a^2, on |d_xy|, ...) decide
NEAR_ROTS = [_axis_angle([1, 1, 0], 1e-6), CUBE_ROTS[7] @ _axis_angle([1, 0, 0], 3e-5),
             _axis_angle([0.3, -1, 0.2], 1e-8) @ CUBE_ROTS[13], _axis_angle([0, 1, 0.5], 2e-3)]
ROTS = CUBE_ROTS + GENERIC_ROTS + NEAR_ROTS  # 32; index 0 = identity
N_GENERIC_END = len(CUBE_ROTS) + len(GENERIC_ROTS)
N_CUBE = len(CUBE_ROTS)


def _dense_rots():
    """Thorough tier: every cube rotation composed with small / medium / nearly-quarter turns about four axes."""
    out = []
    for R in CUBE_ROTS:
        for ax in ([1, 0, 0], [0, 1, 0], [0, 0, 1], [1, 1, 1]):
            for a in (1e-9, 1e-6, 1e-3, 0.1, math.pi / 4, 1.0, math.pi / 2 - 1e-6):
                out.append(R @ _axis_angle(ax, a))
    return out


DENSE_ROTS = _dense_rots()          # 672
ALL_ROTS = ROTS + DENSE_ROTS        # orientation indices >= len(ROTS) address the dense set (thorough tiers only)

OFFSETS = [np.zeros(3), np.array([1000.0, 0.0, 0.0]), np.array([-300.0, 500.0, 700.0]),
           np.array([0.5, -0.25, 0.125])]


def _dirs():
    ds = []
    for v in itertools.product((-1, 0, 1), repeat=3):
        if v == (0, 0, 0):
            continue
        ds.append(np.array(v, dtype=float))
    ds.sort(key=lambda v: (int(np.sum(v != 0)), (-v).tolist()))
    gen = [np.array([1.0, 2.0, 3.0]), np.array([-3.0, 1.0, 0.5]), np.array([0.3, -0.2, -1.0]),
           np.array([1.0, 1e-3, 0.0])]
    out = gen[:1] + ds + gen[1:]
    return [d / np.linalg.norm(d) for d in out]


def _dense_dirs():
    """Thorough tier: all directions with components in {-2..2} plus axis / diagonal directions with 1e-9, 1e-5 perturbations."""
    seen, out = set(), []
    for v in itertools.product((-2, -1, 0, 1, 2), repeat=3):
        if v == (0, 0, 0):
            continue
        d = np.array(v, dtype=float)
        d = d / np.linalg.norm(d)
        k = tuple(np.round(d, 12))
        if k not in seen:
            seen.add(k)
            out.append(d)
    for i in range(3):
        for sgn in (1.0, -1.0):
            for eps in (1e-9, 1e-5):
                for j in range(3):
                    if j != i:
                        d = np.zeros(3)
                        d[i] = sgn
                        d[j] = eps
                        out.append(d / np.linalg.norm(d))
                        d = np.ones(3) * sgn
                        d[j] += eps
                        out.append(d / np.linalg.norm(d))
    return out


DIRS = _dirs()  # index 0 = generic (1,2,3)/|.|; then 26 lattice directions; then 3 more generic
DENSE_DIRS = _dense_dirs()

# ------------------------------------------------------------------ meshes


def _tetra():
    v = np.array([[1, 1, 1], [1, -1, -1], [-1, 1, -1], [-1, -1, 1]], dtype=float) * 0.5
    return v


def _octa():
    return np.array([[1, 0, 0], [-1, 0, 0], [0, 1, 0], [0, -1, 0], [0, 0, 1], [0, 0, -1]], dtype=float) * 0.5


def _cube():
    return np.array(list(itertools.product((-0.5, 0.5), repeat=3)), dtype=float)


def _icosa():
    p = (1 + math.sqrt(5)) / 2
    v = []
    for a in (-1, 1):
        for b in (-p, p):
            v += [[0, a, b], [a, b, 0], [b, 0, a]]
    v = np.array(v, dtype=float)
    return v / np.linalg.norm(v[0]) * 0.5


def _triangulate(v):
    """Outward-oriented triangles of the convex hull of v (trusted base: scipy/qhull)."""
    from scipy.spatial import ConvexHull
    ch = ConvexHull(v, qhull_options="Qt")
    tri = ch.simplices.copy()
    c = v.mean(axis=0)
    for i, t in enumerate(tri):
        n = np.cross(v[t[1]] - v[t[0]], v[t[2]] - v[t[0]])
        if np.dot(n, v[t[0]] - c) < 0:
            tri[i] = t[::-1]
    return tri


def _icosphere():
    v = _icosa()
    tri = _triangulate(v)
    verts = [tuple(x) for x in v]
    idx = {}
    def mid(i, j):
        key = (min(i, j), max(i, j))
        if key not in idx:
            m = (np.array(verts[i]) + np.array(verts[j])) / 2
            m = m / np.linalg.norm(m) * 0.5
            idx[key] = len(verts)
            verts.append(tuple(m))
        return idx[key]
    for a, b, c in tri:
        mid(a, b), mid(b, c), mid(c, a)
    return np.array(verts)


def _skew():
    # asymmetric polytope with integer-derived coordinates (no two faces parallel)
    return np.array([[0.5, 0.1, -0.2], [-0.4, 0.3, 0.1], [0.1, -0.5, 0.2], [-0.1, 0.2, 0.6],
                     [0.3, 0.4, 0.4], [-0.3, -0.3, -0.4], [0.2, -0.2, -0.5]], dtype=float)


def _offtetra():
    # tetrahedron that is far off-centre in its own frame (frame origin outside the shape)
    return _tetra() * 0.6 + np.array([1.5, 0.5, -0.25])


def _interior0():
    # cube whose vertex list starts with a point strictly inside the hull: vertex 0 is referenced by no triangle
    # (what make_convex_mesh returns for a point cloud with interior points)
    return np.vstack([np.array([[0.05, 0.02, -0.03]]), _cube() * 0.8])


_MESH_CACHE = {}


def _corner():
    # right-corner tetrahedron: the midpoint of its bounding box lies outside (x + y + z <= 1)
    return np.array([[0.0, 0.0, 0.0], [1.0, 0.0, 0.0], [0.0, 1.0, 0.0], [0.0, 0.0, 1.0]]) * 0.8 - 0.1


def mesh_data(name):
    if name == "skewraw" and name not in _MESH_CACHE:
        # the skew polytope with the triangle list exactly as scipy / qhull reports it: NOT consistently wound
        # (what a user gets from ConvexHull(points).simplices); index rotated so that shared edges sit in all positions
        from scipy.spatial import ConvexHull
        v = np.ascontiguousarray(_skew(), dtype=float)
        tri = ConvexHull(v).simplices.astype(np.int64).copy()
        for i in range(len(tri)):
            tri[i] = np.roll(tri[i], i % 3)
            if i % 2:
                tri[i] = tri[i][::-1]
        _MESH_CACHE[name] = (v, np.ascontiguousarray(tri))
    if name not in _MESH_CACHE:
        v = {"corner": _corner, "tetra": _tetra, "octa": _octa, "cube": _cube, "icosa": _icosa, "icosphere": _icosphere,
             "skew": _skew, "offtetra": _offtetra, "interior0": _interior0}[name]()
        v = np.ascontiguousarray(v, dtype=float)
        _MESH_CACHE[name] = (v, _triangulate(v).astype(np.int64))
    return _MESH_CACHE[name]


# ------------------------------------------------------------------ sizes (index 0 = default)

SIZES = {
    "sphere": [0.5, 0.01, 50.0, 0.3],
    "ellipsoid": [(0.5, 0.4, 0.3), (0.02, 0.01, 0.015), (50.0, 30.0, 40.0), (1.0, 0.5, 0.25)],
    "capsule": [(0.3, 1.0), (0.01, 0.02), (20.0, 60.0), (0.05, 2.0)],
    "cylinder": [(0.4, 1.0), (0.01, 0.03), (30.0, 50.0), (1.0, 0.05)],
    "cone": [(0.5, 1.0), (0.01, 0.02), (30.0, 60.0), (1.0, 0.1)],
    "box": [(1.0, 0.8, 0.6), (0.02, 0.01, 0.03), (100.0, 50.0, 70.0), (1.0, 0.5, 0.25), (1.0, 1.0, 1.0)],
    "disk": [0.5, 0.01, 50.0, 1.0],
    "ellipse": [(0.5, 0.3), (0.02, 0.01), (50.0, 20.0), (1.0, 0.25)],
    "mesh": [("icosa", 1.0), ("tetra", 0.02), ("cube", 60.0), ("icosphere", 1.0), ("octa", 1.0), ("skew", 1.0), ("offtetra", 1.0), ("interior0", 1.0), ("skewraw", 1.0), ("corner", 1.0)],
    "hull": [("skew", 1.0), ("tetra", 0.02), ("cube", 60.0), ("icosphere", 1.0), ("octa", 1.0), ("icosa", 1.0), ("offtetra", 1.0), ("interior0", 1.0), ("skewraw", 1.0), ("corner", 1.0)],
}


# the largest sizes the domain allows (radii / edge lengths of 1e2) are appended as the LAST entry of every list; they are
# only used by dedicated families (index MAXSIZE[t]), not by the general deviation lattices
SIZE_MAX = {"sphere": 100.0, "ellipsoid": (100.0, 60.0, 80.0), "capsule": (100.0, 100.0), "cylinder": (100.0, 100.0), "cone": (100.0, 100.0),
            "box": (100.0, 100.0, 100.0), "disk": 100.0, "ellipse": (100.0, 40.0), "mesh": ("icosa", 100.0), "hull": ("cube", 100.0)}
MAXSIZE = {}
for _t in TYPES:
    SIZES[_t].append(SIZE_MAX[_t])
    MAXSIZE[_t] = len(SIZES[_t]) - 1


def n_sizes(t):
    return len(SIZES[t]) - 1


def pose(ori, centre):
    T = np.eye(4)
    T[:3, :3] = ALL_ROTS[ori]
    T[:3, 3] = centre
    return np.ascontiguousarray(T)


_HULL_REF = {}


def _hull_ref(s, ori, kind):
    key = (s[0], s[1], ori, kind)
    if key not in _HULL_REF:
        v, _ = mesh_data(s[0])
        H = rs.Hull((v * s[1]) @ ALL_ROTS[ori].T, kind)
        H._facets()
        _HULL_REF[key] = H
    return _HULL_REF[key]


def build(t, size, ori, centre, margin=0.0, want_impl=True, want_ref=True):
    """Returns (collider or None, refshape or None).  centre = position of the pose origin."""
    centre = np.ascontiguousarray(np.asarray(centre, dtype=float))
    return build_explicit(t, SIZES[t][size], pose(ori, centre), margin, want_impl, want_ref, _ori=ori)


def scaled_params(t, s, k):
    if t in ("mesh", "hull"):
        return (s[0], s[1] * k)
    if isinstance(s, tuple):
        return tuple(x * k for x in s)
    return s * k


def build_explicit(t, s, T, margin=0.0, want_impl=True, want_ref=True, _ori=None):
    """Build from explicit size parameters and a 4x4 pose (used for transformed / scaled scenes)."""
    from distance3d import colliders as C
    T = np.ascontiguousarray(np.asarray(T, dtype=float))
    centre = np.ascontiguousarray(T[:3, 3].copy())
    impl = ref = None
    if t == "sphere":
        if want_impl:
            impl = C.Sphere(centre.copy(), float(s))
        if want_ref:
            ref = rs.Sphere(centre, s)
    elif t == "ellipsoid":
        if want_impl:
            impl = C.Ellipsoid(T.copy(), np.array(s, dtype=float))
        if want_ref:
            ref = rs.Ellipsoid(T, s)
    elif t == "capsule":
        if want_impl:
            impl = C.Capsule(T.copy(), float(s[0]), float(s[1]))
        if want_ref:
            ref = rs.Capsule(T, s[0], s[1])
    elif t == "cylinder":
        if want_impl:
            impl = C.Cylinder(T.copy(), float(s[0]), float(s[1]))
        if want_ref:
            ref = rs.Cylinder(T, s[0], s[1])
    elif t == "cone":
        if want_impl:
            impl = C.Cone(T.copy(), float(s[0]), float(s[1]))
        if want_ref:
            ref = rs.Cone(T, s[0], s[1])
    elif t == "box":
        if want_impl:
            impl = C.Box(T.copy(), np.array(s, dtype=float))
        if want_ref:
            ref = rs.Box(T, s)
    elif t == "disk":
        nrm = np.ascontiguousarray(T[:3, 2].copy())
        if want_impl:
            impl = C.Disk(centre.copy(), float(s), nrm.copy())
        if want_ref:
            ref = rs.Disk(centre, s, nrm)
    elif t == "ellipse":
        axes = np.ascontiguousarray(T[:3, :2].T.copy())
        if want_impl:
            impl = C.Ellipse(centre.copy(), axes.copy(), np.array(s, dtype=float))
        if want_ref:
            ref = rs.Ellipse(centre, axes, s)
    elif t == "mesh":
        v, tri = mesh_data(s[0])
        v = np.ascontiguousarray(v * s[1])
        if want_impl:
            impl = C.MeshGraph(T.copy(), v.copy(), tri.copy())
        if want_ref:
            ref = (_hull_ref(s, _ori, "mesh").translated(centre) if _ori is not None
                   else rs.Hull(v @ T[:3, :3].T + centre, "mesh"))
    elif t == "hull":
        v, tri = mesh_data(s[0])
        w = np.ascontiguousarray((v * s[1]) @ T[:3, :3].T + centre)
        if want_impl:
            impl = C.ConvexHullVertices(w.copy())
        if want_ref:
            ref = (_hull_ref(s, _ori, "hull").translated(centre) if _ori is not None else rs.Hull(w, "hull"))
    else:
        raise ValueError(t)
    if margin:
        if want_impl:
            impl = C.Margin(impl, float(margin))
        if want_ref:
            ref = rs.Margin(ref, margin)
    return impl, ref


def margin_value(t, size, flag):
    if not flag:
        return 0.0
    _, r = build(t, size, 0, np.zeros(3), want_impl=False)
    return 0.1 * r.size()


# ------------------------------------------------------------------ bounded products

def deviation_product(alphabet_sizes, bound):
    """All index tuples with at most `bound` non-zero (non-default) coordinates."""
    k = len(alphabet_sizes)
    out = []
    for b in range(bound + 1):
        for pos in itertools.combinations(range(k), b):
            ranges = [range(1, alphabet_sizes[p]) for p in pos]
            for vals in itertools.product(*ranges):
                t = [0] * k
                for p, v in zip(pos, vals):
                    t[p] = v
                out.append(tuple(t))
    return out
