import os
import sys


def main(argv):
    if not argv:
        print(__doc__ or "usage: check <id> [tier] | replay <path> | setup")
        return 2
    from . import bootstrap
    if argv[0] == "replay":
        from . import runner
        return runner.replay(argv[1])
    if argv[0] == "setup":
        from . import setup
        return setup.main()
    prop = argv[0].upper()
    if len(argv) > 1:
        os.environ["VERIF_TIER"] = argv[1]
    from . import runner
    return runner.run_check(prop)


if __name__ == "__main__":
    sys.exit(main(sys.argv[1:]))
