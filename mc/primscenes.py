"""Primitive alphabets and the table of the 34 distance functions (shared by C10, C11, C12, C20)."""
import math

import numpy as np

from . import scenes as sc
from .refmodel import prims as rp

S2, S3 = 1 / math.sqrt(2), 1 / math.sqrt(3)
G1 = np.array([1.0, 2.0, 3.0]) / math.sqrt(14.0)
G2 = np.array([-3.0, 1.0, 0.5]) / math.sqrt(10.25)
AXDIRS = [np.array([1.0, 0, 0]), np.array([0, 1.0, 0]), np.array([0, 0, 1.0]), np.array([S2, S2, 0]), np.array([S3, S3, S3]), G1, G2]
ROT_IDS = [0, 5, 13, 24, 26]   # identity, two cube rotations, two generic rotations


def _pose(o, c):
    return sc.pose(o, np.asarray(c, dtype=float))


def alphabet(kind):
    A = []
    if kind == "point":
        for v in [(x, y, z) for x in (-1, 0, 1) for y in (-1, 0, 1) for z in (-1, 0, 1)]:
            A.append(rp.Point(v))
        for v in [(0.5, 0.25, 0.125), (2, 2, 2), (100, 0, 0), (0.3, -0.7, 1.9), (0, 0, 0.5), (0.5, 0.5, 0), (0, 0, 2.5), (1.5, 0, 0)]:
            A.append(rp.Point(v))
    elif kind == "line":
        for a in [(0, 0, 0), (1, 0, 0), (0.5, 0.5, 0.5), (0, 0, 2)]:
            for d in AXDIRS:
                A.append(rp.Line(a, d))
        # the same lines described with the opposite direction vector (appended: indices above stay stable)
        for a in [(0, 0, 0), (0.5, 0.5, 0.5), (0.25, 1.0, 2)]:
            for d in (AXDIRS[0], AXDIRS[2], AXDIRS[3], AXDIRS[5]):
                A.append(rp.Line(a, -d))
    elif kind == "segment":
        for a, b in [((0, 0, 0), (1, 0, 0)), ((0, 0, 0), (0, 0, 2)), ((-1, -1, -1), (1, 1, 1)), ((1, 0, 0), (1, 1, 0)),
                     ((0.5, 0.5, 1), (0.5, 0.5, 3)), ((-2, 1, 0), (2, 1, 0)), ((0, 0, 0), (100, 0, 0)), ((0.3, -0.7, 1.9), (1.1, 0.4, -0.6)),
                     ((0, 0, 1), (0, 0.2, 1)), ((0, 0, 0.5), (1, 1, 0.5)), ((2, 0, 0), (3, 0, 0)), ((-0.5, 0, 0), (0.5, 0, 0)),
                     ((0.25, 0.25, -1), (0.25, 0.25, 1)), ((0, 0, 1), (1, 0, 1)),
                     # reversed / negative directions (direction without a positive component, with exact zeros), appended so that
                     # the indices of the segments above stay stable
                     ((1, 0, 0), (0, 0, 0)), ((0, 0, 2), (0, 0, 0)), ((1, 1, 0), (1, 0, 0)), ((2, 1, 0), (-2, 1, 0)), ((0.5, 0.5, 3), (0.5, 0.5, 1)),
                     ((1, 1, 1), (-1, -1, -1)), ((1, 0, 1), (0, -1, 1)), ((0, 0.2, 1), (0, 0, 1))]:
            A.append(rp.Segment(a, b))
    elif kind == "plane":
        for a in [(0, 0, 0), (0, 0, 1), (0.5, 0.5, 0.5)]:
            for m in AXDIRS[:6]:
                A.append(rp.Plane(a, m))
        for a in [(0, 0, 1), (0.5, 0.5, 0.5)]:
            for m in (AXDIRS[2], AXDIRS[0], AXDIRS[4]):
                A.append(rp.Plane(a, -m))      # opposite normals (appended)
    elif kind == "triangle":
        base = [[(0, 0, 0), (1, 0, 0), (0, 1, 0)], [(0, 0, 1), (1, 0, 1), (0, 1, 1)], [(0, 0, 0), (1, 0, 0), (0, 0, 1)],
                [(0, 0, 0), (1, 0, 0), (0, 1, 1)], [(0, 0, 0), (100, 0, 0), (0, 100, 0)], [(0, 0, 0), (1, 0, 0), (0.5, 0.2, 0)],
                [(1, 0, 0), (0, 1, 0), (0, 0, 1)], [(0.5, 0.5, -1), (0.5, 0.5, 1), (2, 2, 0)], [(1, 0, 0), (2, 0, 0), (1, 1, 0)],
                [(0.3, -0.7, 1.9), (1.1, 0.4, -0.6), (-0.8, 0.9, 0.2)], [(0.25, 0.25, 0), (0.75, 0.25, 0), (0.25, 0.75, 0)],
                [(0, 0, 0.5), (1, 0, 0.5), (0, 1, 1.5)]]
        for t in base:
            A.append(rp.Triangle(t))
    elif kind == "rectangle":
        for o, c, l in [(0, (0, 0, 0), (1, 1)), (0, (0, 0, 1), (1, 1)), (0, (0, 0, 0), (2, 0.5)), (5, (0, 0, 0), (1, 1)), (13, (0.5, 0.5, 0.5), (2, 0.5)),
                        (24, (0, 0, 0), (1, 1)), (26, (1.5, 0, 0), (1, 2)), (0, (1.5, 0, 0), (1, 1)), (0, (1, 0, 0), (1, 1)), (0, (0, 0, 0), (100, 0.25)),
                        (24, (0.5, 0.5, 2), (2, 0.5)), (0, (0.25, 0.25, 0), (0.5, 0.5)), (9, (0, 0, 0.5), (1, 1)), (0, (0, 0, 0.5), (4, 4))]:
            R = sc.ROTS[o]
            A.append(rp.Rectangle(c, np.ascontiguousarray(R[:, :2].T), l))
    elif kind in ("disk", "circle"):
        cls = rp.Disk if kind == "disk" else rp.Circle
        for c, r, n in [((0, 0, 0), 1.0, (0, 0, 1)), ((0, 0, 1), 1.0, (0, 0, 1)), ((0, 0, 0), 0.25, (0, 0, 1)), ((0, 0, 0), 1.0, (1, 0, 0)),
                        ((1, 0, 0), 1.0, (0, 0, 1)), ((2, 0, 0), 1.0, (0, 0, 1)), ((0.5, 0.5, 0.5), 1.0, (S2, S2, 0)), ((0, 0, 0), 100.0, (0, 0, 1)),
                        ((0, 0, 0), 1.0, tuple(G1)), ((0.5, 0.5, 0.5), 0.5, tuple(G2)), ((0, 0, 2), 1.0, (1, 0, 0)), ((0, 0, 0.5), 2.0, (0, 0, 1)),
                        ((3, 0, 0), 1.0, (1, 0, 0)), ((0, 0, 0), 0.5, (0, 0, 1))]:
            A.append(cls(c, r, n))
    elif kind == "box":
        for o, c, s in [(0, (0, 0, 0), (1, 1, 1)), (0, (0, 0, 2), (1, 1, 1)), (0, (0, 0, 0), (2, 1, 0.5)), (5, (1.5, 0, 0), (1, 1, 1)),
                        (24, (0.5, 0.5, 0.5), (2, 1, 0.5)), (26, (0, 0, 0), (1, 1, 1)), (0, (1, 0, 0), (1, 1, 1)), (0, (0, 0, 0), (100, 50, 0.25)),
                        (13, (0, 0, 1), (1, 2, 0.5)), (0, (0.25, 0.25, 0.25), (0.5, 0.5, 0.5)), (25, (2, 2, 2), (1, 1, 1))]:
            A.append(rp.Box(_pose(o, c), s))
    elif kind == "ellipsoid":
        for o, c, r in [(0, (0, 0, 0), (1, 1, 1)), (0, (0, 0, 0), (1, 0.5, 0.25)), (0, (0, 0, 2), (1, 0.5, 0.25)), (24, (0.5, 0.5, 0.5), (1, 0.5, 0.25)),
                        (5, (1.5, 0, 0), (1, 0.5, 0.25)), (0, (0, 0, 0), (100, 10, 0.5)), (26, (0, 0, 0), (2, 1, 1)), (13, (0, 0, 1), (0.5, 0.5, 1))]:
            A.append(rp.Ellipsoid(_pose(o, c), r))
    elif kind == "cylinder":
        for o, c, r, l in [(0, (0, 0, 0), 0.5, 1), (0, (0, 0, 2), 0.5, 1), (0, (0, 0, 0), 1, 0.25), (5, (1.5, 0, 0), 0.5, 1), (24, (0.5, 0.5, 0.5), 0.5, 2),
                           (26, (0, 0, 0), 0.5, 1), (0, (0, 0, 0), 50, 100), (13, (0, 0, 1), 0.25, 2), (9, (1, 0, 0), 0.5, 1)]:
            A.append(rp.Cylinder(_pose(o, c), r, l))
    else:
        raise ValueError(kind)
    return A


_ALPH = {}


def alph(kind):
    if kind not in _ALPH:
        _ALPH[kind] = alphabet(kind)
    return _ALPH[kind]


# name -> (kindA, kindB).  All functions are called as f(*A.args(), *B.args()) and return (d, p1, p2)
# (point functions return (d, p2); p1 is the query point).
FUNCS = {
    "point_to_line": ("point", "line"), "point_to_line_segment": ("point", "segment"), "point_to_plane": ("point", "plane"),
    "point_to_triangle": ("point", "triangle"), "point_to_rectangle": ("point", "rectangle"), "point_to_disk": ("point", "disk"),
    "point_to_circle": ("point", "circle"), "point_to_box": ("point", "box"), "point_to_ellipsoid": ("point", "ellipsoid"),
    "point_to_cylinder": ("point", "cylinder"),
    "line_to_line": ("line", "line"), "line_to_line_segment": ("line", "segment"), "line_to_plane": ("line", "plane"),
    "line_to_triangle": ("line", "triangle"), "line_to_rectangle": ("line", "rectangle"), "line_to_circle": ("line", "circle"),
    "line_to_box": ("line", "box"),
    "line_segment_to_line_segment": ("segment", "segment"), "line_segment_to_plane": ("segment", "plane"),
    "line_segment_to_triangle": ("segment", "triangle"), "line_segment_to_rectangle": ("segment", "rectangle"),
    "line_segment_to_circle": ("segment", "circle"), "line_segment_to_box": ("segment", "box"),
    "plane_to_plane": ("plane", "plane"), "plane_to_triangle": ("plane", "triangle"), "plane_to_rectangle": ("plane", "rectangle"),
    "plane_to_box": ("plane", "box"), "plane_to_ellipsoid": ("plane", "ellipsoid"), "plane_to_cylinder": ("plane", "cylinder"),
    "triangle_to_triangle": ("triangle", "triangle"), "triangle_to_rectangle": ("triangle", "rectangle"),
    "rectangle_to_rectangle": ("rectangle", "rectangle"), "rectangle_to_box": ("rectangle", "box"),
    "disk_to_disk": ("disk", "disk"),
}
# one extra variant: distance to the ellipsoid SURFACE
VARIANTS = {"point_to_ellipsoid_surface": ("point", "ellipsoid")}


def call(name, A, B):
    from distance3d import distance as D
    if name == "point_to_ellipsoid_surface":
        r = D.point_to_ellipsoid(*A.args(), *B.args(), distance_to_surface=True)
    else:
        r = getattr(D, name)(*A.args(), *B.args())
    if FUNCS.get(name, VARIANTS.get(name))[0] == "point" :
        return r[0], A.p.copy(), r[1]
    return r[0], r[1], r[2]


def scale_L(A, B):
    """Size scale of the pair: feature sizes and mutual centre distance (VERIF_L_WORLD=1: also the distance from the origin)."""
    L = max(1.0, A.size(), B.size(), float(np.linalg.norm(A.centre() - B.centre())))
    if __import__("os").environ.get("VERIF_L_WORLD"):
        L = max(L, float(np.linalg.norm(A.centre())), float(np.linalg.norm(B.centre())))
    return L


def all_names():
    return list(FUNCS) + list(VARIANTS)


# relative placements: for the polygon/box functions the second primitive is additionally translated so that every
# vertex / edge / face region of one primitive faces the other one
SHIFTS = [np.zeros(3)] + [np.array(v, dtype=float) for v in
                          [(1.5, 0, 0), (-1.5, 0, 0), (0, 1.5, 0), (0, -1.5, 0), (0, 0, 1.5), (0, 0, -1.5), (1.5, -1.5, 0.5), (-1.2, 1.3, -0.4),
                           (1.5, 1.5, 0), (-1.5, -1.5, 0), (-1.5, 1.5, 0.25)]]
SHIFTED_FUNCS = {"triangle_to_triangle", "triangle_to_rectangle", "rectangle_to_rectangle", "rectangle_to_box", "line_to_box",
                 "line_segment_to_box", "line_segment_to_rectangle", "line_segment_to_triangle", "line_to_rectangle", "line_to_triangle",
                 "line_segment_to_line_segment", "plane_to_box", "plane_to_rectangle", "plane_to_triangle"}


def shifted(B, k):
    """The k-th translated copy of primitive B."""
    if k == 0:
        return B
    from .props import c12
    G = np.eye(4)
    G[:3, 3] = SHIFTS[k]
    return c12.transform_prim(B, G)


MORE_SHIFTS = [np.array(v, dtype=float) * 1.25 for v in __import__("itertools").product((-1, 0, 1), repeat=3) if any(v)]


def enumerate_states(names=None, shifts=True, thorough=False):
    states = []
    if thorough:
        # every function, 11 + 26 translated copies of the second primitive
        global SHIFTS
        if len(SHIFTS) < 30:
            SHIFTS = SHIFTS + MORE_SHIFTS
        for name in (names or all_names()):
            ka, kb = FUNCS.get(name, VARIANTS.get(name))
            for i in range(len(alph(ka))):
                for k in range(len(SHIFTS)):
                    states.append({"fn": name, "i": i, "shift": k})
        return states
    for name in (names or all_names()):
        ka, kb = FUNCS.get(name, VARIANTS.get(name))
        for i in range(len(alph(ka))):
            states.append({"fn": name, "i": i, "shift": 0})
            if shifts and name in SHIFTED_FUNCS:
                for k in range(1, len(SHIFTS)):
                    states.append({"fn": name, "i": i, "shift": k})
    return states
