"""setup: offline; warms the numba cache for the current /repo tree (all modes used by the checks)."""
import os
import subprocess
import sys
import time

from . import bootstrap

CODE = """
import mc.bootstrap as b; b.init()
import warnings; warnings.filterwarnings('ignore')
import distance3d.gjk, distance3d.mpr, distance3d.epa, distance3d.distance, distance3d.self_collision
import distance3d.broad_phase, distance3d.containment_test, distance3d.hydroelastic_contact, distance3d.aabb_tree
print('warm', b.setup_env())
"""


def main():
    t = time.time()
    procs = []
    for mode in ("jit", "boundscheck"):
        env = dict(os.environ)
        env["VERIF_MODE"] = mode
        env.pop("VERIF_NUMBA_CACHE", None)
        procs.append(subprocess.Popen([sys.executable, "-W", "ignore", "-c", CODE], env=env, cwd=bootstrap.VERIF))
    rc = 0
    for p in procs:
        rc |= p.wait()
    os.makedirs(os.path.join(bootstrap.VERIF, "evidence"), exist_ok=True)
    os.makedirs(os.path.join(bootstrap.VERIF, "replays"), exist_ok=True)
    print("setup done in %.0fs rc=%d" % (time.time() - t, rc))
    return 1 if rc else 0
