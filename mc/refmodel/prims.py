"""Reference model of the geometric primitives of distance3d.distance.

Every primitive offers
  dist(p)        exact distance of a point to the primitive (membership test),
  h(n)           support value for directions with finite support,
  constraints()  vectors a direction must be orthogonal to for the support value to be finite
                 (line: its direction; plane: two tangent vectors; bounded sets: none),
  size(), centre()
and the pair-level optimality certificate `certify`.
Non-convex primitives (circle, ellipsoid surface) offer witness searches instead.
"""
import math

import numpy as np

from . import shapes as rs


def _unit(v):
    v = np.asarray(v, dtype=float)
    return v / np.linalg.norm(v)


class Prim:
    convex = True

    def constraints(self):
        return []

    def size(self):
        return 1.0

    def min_feature(self):
        """Smallest feature size (for the domain check of scaled scenes); None if the primitive has no size."""
        return None

    def centre(self):
        return np.zeros(3)


class Point(Prim):
    kind = "point"

    def __init__(self, p):
        self.p = np.asarray(p, dtype=float)

    def dist(self, q):
        return float(np.linalg.norm(q - self.p))

    def h(self, n):
        return float(self.p @ n)

    def size(self):
        return 0.0

    def centre(self):
        return self.p

    def args(self):
        return (self.p.copy(),)


class Line(Prim):
    kind = "line"

    def __init__(self, a, d):
        self.a = np.asarray(a, dtype=float)
        self.d = _unit(d)

    def dist(self, q):
        w = q - self.a
        return float(np.linalg.norm(w - (w @ self.d) * self.d))

    def dist_many(self, Q):
        W = Q - self.a
        return np.linalg.norm(W - np.outer(W @ self.d, self.d), axis=1)

    def h(self, n):
        return float(self.a @ n)

    def constraints(self):
        return [self.d]

    def centre(self):
        return self.a

    def args(self):
        return (self.a.copy(), self.d.copy())


class Segment(Prim):
    kind = "segment"

    def __init__(self, a, b):
        self.a = np.asarray(a, dtype=float)
        self.b = np.asarray(b, dtype=float)

    def dist(self, q):
        ab = self.b - self.a
        t = min(1.0, max(0.0, float((q - self.a) @ ab) / float(ab @ ab)))
        return float(np.linalg.norm(q - (self.a + t * ab)))

    def dist_many(self, Q):
        ab = self.b - self.a
        t = np.clip((Q - self.a) @ ab / float(ab @ ab), 0.0, 1.0)
        return np.linalg.norm(Q - (self.a + np.outer(t, ab)), axis=1)

    def h(self, n):
        return max(float(self.a @ n), float(self.b @ n))

    def size(self):
        return float(np.linalg.norm(self.b - self.a))

    def min_feature(self):
        return self.size()

    def centre(self):
        return 0.5 * (self.a + self.b)

    def args(self):
        return (self.a.copy(), self.b.copy())


class Plane(Prim):
    kind = "plane"

    def __init__(self, a, m):
        self.a = np.asarray(a, dtype=float)
        self.m = _unit(m)

    def dist(self, q):
        return abs(float((q - self.a) @ self.m))

    def h(self, n):
        return float(self.a @ n)

    def constraints(self):
        t = np.cross(self.m, [1.0, 0.0, 0.0] if abs(self.m[0]) < 0.9 else [0.0, 1.0, 0.0])
        t = _unit(t)
        return [t, np.cross(self.m, t)]

    def centre(self):
        return self.a

    def args(self):
        return (self.a.copy(), self.m.copy())


class Triangle(Prim):
    kind = "triangle"

    def __init__(self, pts):
        self.pts = np.asarray(pts, dtype=float)

    def dist(self, q):
        return rs._tris_dist(np.asarray(q, dtype=float), self.pts[0:1], self.pts[1:2], self.pts[2:3])[0]

    def h(self, n):
        return float(np.max(self.pts @ n))

    def size(self):
        return float(max(np.linalg.norm(self.pts[i] - self.pts[j]) for i, j in ((0, 1), (1, 2), (0, 2))))

    def min_feature(self):
        return float(min(np.linalg.norm(self.pts[i] - self.pts[j]) for i, j in ((0, 1), (1, 2), (0, 2))))

    def centre(self):
        return self.pts.mean(axis=0)

    def args(self):
        return (np.ascontiguousarray(self.pts.copy()),)


class Rectangle(Prim):
    kind = "rectangle"

    def __init__(self, c, axes, lengths):
        self.c = np.asarray(c, dtype=float)
        self.axes = np.asarray(axes, dtype=float)
        self.lengths = np.asarray(lengths, dtype=float)

    def dist(self, q):
        w = q - self.c
        uv = self.axes @ w
        cl = np.clip(uv, -0.5 * self.lengths, 0.5 * self.lengths)
        return float(np.linalg.norm(w - cl @ self.axes))

    def h(self, n):
        return float(self.c @ n + 0.5 * self.lengths @ np.abs(self.axes @ n))

    def size(self):
        return float(self.lengths.max())

    def min_feature(self):
        return float(self.lengths.min())

    def centre(self):
        return self.c

    def args(self):
        return (self.c.copy(), np.ascontiguousarray(self.axes.copy()), self.lengths.copy())


class Disk(Prim):
    kind = "disk"

    def __init__(self, c, r, nrm):
        self.ref = rs.Disk(c, r, _unit(nrm))

    def dist(self, q):
        return self.ref.dist(q)

    def h(self, n):
        return self.ref.h(n)

    def size(self):
        return 2 * self.ref.r

    def min_feature(self):
        return self.ref.r

    def centre(self):
        return self.ref.c

    def args(self):
        return (self.ref.c.copy(), float(self.ref.r), self.ref.n.copy())


class Circle(Prim):
    kind = "circle"
    convex = False

    def __init__(self, c, r, nrm):
        self.c = np.asarray(c, dtype=float)
        self.r = float(r)
        self.n = _unit(nrm)
        t = np.cross(self.n, [1.0, 0.0, 0.0] if abs(self.n[0]) < 0.9 else [0.0, 1.0, 0.0])
        self.u = _unit(t)
        self.v = np.cross(self.n, self.u)

    def dist(self, q):
        w = np.asarray(q, dtype=float) - self.c
        z = float(w @ self.n)
        rho = float(np.linalg.norm(w - z * self.n))
        return math.hypot(rho - self.r, z)

    def point(self, th):
        return self.c + self.r * (math.cos(th) * self.u + math.sin(th) * self.v)

    def points(self, th):
        return self.c + self.r * (np.outer(np.cos(th), self.u) + np.outer(np.sin(th), self.v))

    def size(self):
        return 2 * self.r

    def min_feature(self):
        return self.r

    def centre(self):
        return self.c

    def args(self):
        return (self.c.copy(), self.r, self.n.copy())


class Box(Prim):
    kind = "box"

    def __init__(self, T, size):
        self.ref = rs.Box(T, size)
        self.T = np.ascontiguousarray(np.asarray(T, dtype=float))
        self.sz = np.asarray(size, dtype=float)

    def dist(self, q):
        return self.ref.dist(q)

    def h(self, n):
        return self.ref.h(n)

    def size(self):
        return float(self.sz.max())

    def min_feature(self):
        return float(self.sz.min())

    def centre(self):
        return self.ref.c

    def args(self):
        return (self.T.copy(), self.sz.copy())


class Ellipsoid(Prim):
    kind = "ellipsoid"

    def __init__(self, T, radii):
        self.ref = rs.Ellipsoid(T, radii)
        self.T = np.ascontiguousarray(np.asarray(T, dtype=float))
        self.radii = np.asarray(radii, dtype=float)

    def dist(self, q):
        return self.ref.dist(q)

    def surface_dist_ub(self, q):
        """Upper bound (witness) of the distance of q to the ellipsoid SURFACE: exact outside; inside by a
        dense surface grid + local refinement (resolution stated in the evidence)."""
        x = self.ref.loc(q)
        if np.sum((x / self.radii) ** 2) >= 1.0:
            return self.ref.dist(q)
        best = float(np.min(self.radii - np.abs(x)))  # axis-aligned chords give valid surface points
        th = np.linspace(0, np.pi, 181)
        ph = np.linspace(0, 2 * np.pi, 361)
        TH, PH = np.meshgrid(th, ph, indexing="ij")
        S = np.stack([self.radii[0] * np.sin(TH) * np.cos(PH), self.radii[1] * np.sin(TH) * np.sin(PH),
                      self.radii[2] * np.cos(TH)], axis=-1).reshape(-1, 3)
        d = np.linalg.norm(S - x, axis=1)
        i = int(np.argmin(d))
        best = min(best, float(d[i]))
        # local refinement around the best grid point
        t0, p0 = TH.reshape(-1)[i], PH.reshape(-1)[i]
        step = np.pi / 180
        for _ in range(40):
            improved = False
            for dt, dp in ((step, 0), (-step, 0), (0, step), (0, -step)):
                t1, p1 = t0 + dt, p0 + dp
                s = np.array([self.radii[0] * math.sin(t1) * math.cos(p1), self.radii[1] * math.sin(t1) * math.sin(p1),
                              self.radii[2] * math.cos(t1)])
                dd = float(np.linalg.norm(s - x))
                if dd < best:
                    best, t0, p0, improved = dd, t1, p1, True
            if not improved:
                step *= 0.5
        return best

    def on_surface(self, q):
        x = self.ref.loc(q)
        return abs(math.sqrt(float(np.sum((x / self.radii) ** 2))) - 1.0) * float(self.radii.min())

    def h(self, n):
        return self.ref.h(n)

    def size(self):
        return 2 * float(self.radii.max())

    def min_feature(self):
        return float(self.radii.min())

    def centre(self):
        return self.ref.c

    def args(self):
        return (self.T.copy(), self.radii.copy())


class Cylinder(Prim):
    kind = "cylinder"

    def __init__(self, T, r, length):
        self.ref = rs.Cylinder(T, r, length)
        self.T = np.ascontiguousarray(np.asarray(T, dtype=float))
        self.r, self.length = float(r), float(length)

    def dist(self, q):
        return self.ref.dist(q)

    def h(self, n):
        return self.ref.h(n)

    def size(self):
        return max(2 * self.r, self.length)

    def min_feature(self):
        return min(self.r, self.length)

    def centre(self):
        return self.ref.c

    def args(self):
        return (self.T.copy(), self.r, self.length)


# ------------------------------------------------------------------ pair-level oracles

def project_direction(n, cons):
    """Project n onto the orthogonal complement of span(cons); None if (numerically) nothing is left."""
    n = np.asarray(n, dtype=float)
    if not cons:
        return n / np.linalg.norm(n)
    C = np.array(cons, dtype=float)
    U, sv, Vt = np.linalg.svd(C, full_matrices=False)
    keep = [Vt[i] for i in range(len(sv)) if sv[i] > 1e-9]   # orthonormal basis of span(cons)
    m = n.copy()
    for q in keep:
        m = m - (m @ q) * q
    ln = np.linalg.norm(m)
    if ln < 1e-9:
        return None
    return m / ln


def certify(A, B, p1, p2, d, tol):
    """Optimality certificate for convex A, B: returns None if (p1, p2, d) is optimal within tol,
    else a dict describing the shortfall.  p1 on A, p2 on B."""
    if d <= tol:
        return None
    n = (p2 - p1) / np.linalg.norm(p2 - p1)
    cons = A.constraints() + B.constraints()
    m = project_direction(n, cons)
    if m is None:
        return {"reason": "no separating direction with finite support exists (the sets meet), but d = %g" % d}
    lb = -B.h(-m) - A.h(m)
    if lb < d - tol:
        return {"reason": "separating-plane lower bound below reported distance", "lower_bound": lb, "direction": m, "d": d}
    return None


def exists_closer(fvec, lo, hi, lip, threshold, n0=4096, cap=6000000):
    """Exhaustive decision by interval subdivision: is there x in [lo,hi] with f(x) < threshold, f being lip-Lipschitz?
    Returns ('witness', x, f(x)) | ('none', None, smallest value seen) | ('cap', None, smallest value seen).
    A cell [m-w/2, m+w/2] is discarded when f(m) - lip*w/2 >= threshold (it cannot contain such an x)."""
    w = (hi - lo) / n0
    mids = lo + w * (np.arange(n0) + 0.5)
    best = np.inf
    while True:
        vals = fvec(mids)
        i = int(np.argmin(vals))
        best = min(best, float(vals[i]))
        if vals[i] < threshold:
            return "witness", float(mids[i]), float(vals[i])
        keep = vals - lip * w / 2 < threshold
        mids = mids[keep]
        if len(mids) == 0:
            return "none", None, best
        if 2 * len(mids) > cap:
            return "cap", None, best
        w = w / 2
        mids = np.concatenate([mids - w / 2, mids + w / 2])
