"""Penetration depth and residual overlap oracles.

g(n) = h_A(n) + h_B(-n) is the extent of A-B along unit n.
depth g* = min_n g(n);  after translating B by m:  r(m) = min_n (g(n) - m.n)
(positive: still overlapping by r, negative: gap -r).

For polytope pairs the minimum is attained on the SAT axes {face normals of A,
face normals of B, edge x edge}; they are enumerated exhaustively (exact).
For smooth pairs only one-sided (sound) statements are derived from a direction
lattice + local refinement: any evaluated direction gives an upper bound.
"""
import itertools

import numpy as np

from . import shapes as rs


def polytope_vertices(shape):
    """World-frame vertices if the shape is a polytope, else None."""
    if isinstance(shape, rs.Box):
        return shape.vertices()
    if isinstance(shape, rs.Hull):
        return shape.v
    return None


def _hull_axes(V):
    """(face normals, edge directions) of conv(V)."""
    from scipy.spatial import ConvexHull
    ch = ConvexHull(V, qhull_options="Qt")
    N = ch.equations[:, :3]
    # unique normals
    Nu = []
    for n in N:
        if not any(abs(abs(n @ m) - 1) < 1e-12 for m in Nu):
            Nu.append(n)
    edges = set()
    for a, b, c in ch.simplices:
        for i, j in ((a, b), (b, c), (c, a)):
            edges.add((min(i, j), max(i, j)))
    E = []
    for i, j in edges:
        e = V[j] - V[i]
        e = e / np.linalg.norm(e)
        if not any(abs(abs(e @ f) - 1) < 1e-12 for f in E):
            E.append(e)
    return np.array(Nu), np.array(E)


_AXES_CACHE = {}


def sat_axes(VA, VB, keyA=None, keyB=None):
    def axes(V, key):
        if key is not None and key in _AXES_CACHE:
            return _AXES_CACHE[key]
        r = _hull_axes(V)
        if key is not None:
            _AXES_CACHE[key] = r
        return r
    NA, EA = axes(VA, keyA)
    NB, EB = axes(VB, keyB)
    C = np.cross(EA[:, None, :], EB[None, :, :]).reshape(-1, 3)
    ln = np.linalg.norm(C, axis=1)
    C = C[ln > 1e-9] / ln[ln > 1e-9][:, None]
    ax = np.vstack([NA, NB, C])
    return np.vstack([ax, -ax])


def g_values(VA, VB, axes):
    return (VA @ axes.T).max(axis=0) + (-(VB @ axes.T)).max(axis=0)


def polytope_depth(VA, VB, axes):
    g = g_values(VA, VB, axes)
    i = int(np.argmin(g))
    return float(g[i]), axes[i]


def polytope_residual(VA, VB, axes, m):
    """r(m) exactly; also the minimising axis."""
    g = g_values(VA, VB, axes) - axes @ m
    i = int(np.argmin(g))
    return float(g[i]), axes[i]


def fibonacci_sphere(n):
    i = np.arange(n) + 0.5
    phi = np.arccos(1 - 2 * i / n)
    th = np.pi * (1 + 5 ** 0.5) * i
    return np.stack([np.cos(th) * np.sin(phi), np.sin(th) * np.sin(phi), np.cos(phi)], axis=1)


_LATTICE = None


def direction_lattice():
    global _LATTICE
    if _LATTICE is None:
        ds = [np.array(v, dtype=float) for v in itertools.product((-1, 0, 1), repeat=3) if any(v)]
        ds = np.array([d / np.linalg.norm(d) for d in ds])
        _LATTICE = np.vstack([ds, fibonacci_sphere(300)])
    return _LATTICE


def upper_bound_min(A, B, m=None, extra=(), refine=True):
    """Upper bound of min_n (g(n) - m.n) from a direction lattice + local pattern search.
    Returns (value, direction)."""
    m = np.zeros(3) if m is None else np.asarray(m, dtype=float)
    dirs = direction_lattice()
    if len(extra):
        ex = np.array([e / np.linalg.norm(e) for e in extra if np.linalg.norm(e) > 0])
        if len(ex):
            dirs = np.vstack([dirs, ex])

    def f(n):
        return A.h(n) + B.h(-n) - float(m @ n)
    vals = np.array([f(n) for n in dirs])
    i = int(np.argmin(vals))
    best, nb = float(vals[i]), dirs[i]
    if refine:
        step = 0.1
        for _ in range(60):
            improved = False
            # two tangent directions
            t1 = np.cross(nb, [1.0, 0.0, 0.0] if abs(nb[0]) < 0.9 else [0.0, 1.0, 0.0])
            t1 /= np.linalg.norm(t1)
            t2 = np.cross(nb, t1)
            for t in (t1, -t1, t2, -t2):
                c = nb + step * t
                c /= np.linalg.norm(c)
                v = f(c)
                if v < best - 1e-15:
                    best, nb, improved = v, c, True
            if not improved:
                step *= 0.5
                if step < 1e-9:
                    break
    return best, nb
