"""Reference model of the convex shapes: closed-form support values, arg-support
points, exact point-to-set distances, anchor points with known depth.

Written from the mathematical definitions; shares no code with distance3d.
All shapes are expressed in the world frame.
"""
import math

import numpy as np


def _unit(v):
    n = np.linalg.norm(v)
    return v / n if n > 0 else v


def _ellipse_dist2d(r, x, it=80):
    """Distance from point x (len m) to the solid axis-aligned ellipse/ellipsoid
    with radii r (len m): 0 inside; outside by bisection on the Lagrange
    multiplier (Eberly's robust method).  Returns (dist, closest_point)."""
    r = np.asarray(r, dtype=float)
    x = np.asarray(x, dtype=float)
    if np.sum((x / r) ** 2) <= 1.0:
        return 0.0, x.copy()
    sgn = np.where(x < 0, -1.0, 1.0)
    y = np.abs(x)
    # closest point q_i = r_i^2 y_i / (t + r_i^2), t >= 0 with sum (r_i y_i/(t+r_i^2))^2 = 1
    def g(t):
        return np.sum((r * y / (t + r * r)) ** 2) - 1.0
    lo = 0.0
    hi = float(np.linalg.norm(r * y)) + 1.0  # g(hi) < 0
    hi = max(hi, 1.0)
    while g(hi) > 0:
        hi *= 2.0
    for _ in range(200):
        mid = 0.5 * (lo + hi)
        if mid == lo or mid == hi:
            break
        if g(mid) > 0:
            lo = mid
        else:
            hi = mid
    t = 0.5 * (lo + hi)
    q = r * r * y / (t + r * r)
    # re-project radially to remove the residual of the bisection
    s = math.sqrt(np.sum((q / r) ** 2))
    if s > 0:
        q = q / s
    return float(np.linalg.norm(y - q)), sgn * q


def _tri_dist2d(p, a, b, c):
    """Distance from 2-D point p to the solid triangle abc (0 inside)."""
    def seg(p, a, b):
        ab = b - a
        t = np.dot(p - a, ab) / np.dot(ab, ab)
        t = min(1.0, max(0.0, t))
        return float(np.linalg.norm(p - (a + t * ab)))
    def cross(u, v):
        return u[0] * v[1] - u[1] * v[0]
    d1 = cross(b - a, p - a)
    d2 = cross(c - b, p - b)
    d3 = cross(a - c, p - c)
    neg = (d1 < 0) or (d2 < 0) or (d3 < 0)
    pos = (d1 > 0) or (d2 > 0) or (d3 > 0)
    if not (neg and pos):
        return 0.0
    return min(seg(p, a, b), seg(p, b, c), seg(p, c, a))


def _tris_dist(p, A, B, C):
    """Vectorised exact distance from point p to triangles (A[i],B[i],C[i]); returns min."""
    # Ericson's region classification, vectorised
    ab = B - A
    ac = C - A
    ap = p - A
    d1 = np.einsum("ij,ij->i", ab, ap)
    d2 = np.einsum("ij,ij->i", ac, ap)
    bp = p - B
    d3 = np.einsum("ij,ij->i", ab, bp)
    d4 = np.einsum("ij,ij->i", ac, bp)
    cp = p - C
    d5 = np.einsum("ij,ij->i", ab, cp)
    d6 = np.einsum("ij,ij->i", ac, cp)
    n = len(A)
    res = np.empty((n, 3))
    done = np.zeros(n, dtype=bool)
    m = (d1 <= 0) & (d2 <= 0)
    res[m] = A[m]
    done |= m
    m = ~done & (d3 >= 0) & (d4 <= d3)
    res[m] = B[m]
    done |= m
    vc = d1 * d4 - d3 * d2
    m = ~done & (vc <= 0) & (d1 >= 0) & (d3 <= 0)
    if m.any():
        v = d1[m] / (d1[m] - d3[m])
        res[m] = A[m] + v[:, None] * ab[m]
    done |= m
    m = ~done & (d6 >= 0) & (d5 <= d6)
    res[m] = C[m]
    done |= m
    vb = d5 * d2 - d1 * d6
    m = ~done & (vb <= 0) & (d2 >= 0) & (d6 <= 0)
    if m.any():
        w = d2[m] / (d2[m] - d6[m])
        res[m] = A[m] + w[:, None] * ac[m]
    done |= m
    va = d3 * d6 - d5 * d4
    m = ~done & (va <= 0) & ((d4 - d3) >= 0) & ((d5 - d6) >= 0)
    if m.any():
        w = (d4[m] - d3[m]) / ((d4[m] - d3[m]) + (d5[m] - d6[m]))
        res[m] = B[m] + w[:, None] * (C[m] - B[m])
    done |= m
    m = ~done
    if m.any():
        denom = va[m] + vb[m] + vc[m]
        v = vb[m] / denom
        w = vc[m] / denom
        res[m] = A[m] + ab[m] * v[:, None] + ac[m] * w[:, None]
    d = np.linalg.norm(res - p, axis=1)
    i = int(np.argmin(d))
    return float(d[i]), res[i]


class Shape:
    kind = "?"
    flat = False

    def h(self, n):
        """Support value max_{x in K} x.n (n need not be unit)."""
        raise NotImplementedError

    def argsup(self, n):
        """A point of K attaining h(n)."""
        raise NotImplementedError

    def dist(self, p):
        """Exact Euclidean distance of p to K (0 if p in K)."""
        raise NotImplementedError

    def anchor(self):
        """(point, depth): a point of K whose distance to the complement is >= depth."""
        raise NotImplementedError

    def size(self):
        """Largest feature size (diameter-like)."""
        raise NotImplementedError

    def centre(self):
        raise NotImplementedError

    def translated(self, t):
        raise NotImplementedError

    def inball(self, p):
        """A lower bound (exact where noted) of the radius of the largest ball around p contained in K; 0 if p is outside."""
        return 0.0

    def bound_radius(self):
        """Radius of a ball around centre() containing K."""
        return self.size()


class Sphere(Shape):
    kind = "sphere"

    def __init__(self, c, r):
        self.c = np.asarray(c, dtype=float)
        self.r = float(r)

    def h(self, n):
        return float(self.c @ n + self.r * np.linalg.norm(n))

    def argsup(self, n):
        return self.c + self.r * _unit(np.asarray(n, dtype=float))

    def dist(self, p):
        return max(0.0, float(np.linalg.norm(p - self.c)) - self.r)

    def anchor(self):
        return self.c.copy(), self.r

    def inball(self, p):
        return max(0.0, self.r - float(np.linalg.norm(p - self.c)))

    def size(self):
        return 2 * self.r

    def centre(self):
        return self.c.copy()

    def translated(self, t):
        return Sphere(self.c + t, self.r)

    def bound_radius(self):
        return self.r


class _Posed(Shape):
    def __init__(self, T):
        T = np.asarray(T, dtype=float)
        self.R = T[:3, :3].copy()
        self.c = T[:3, 3].copy()

    def loc(self, p):
        return self.R.T @ (np.asarray(p, dtype=float) - self.c)

    def glob(self, x):
        return self.c + self.R @ x

    def ldir(self, n):
        return self.R.T @ np.asarray(n, dtype=float)

    def pose(self):
        T = np.eye(4)
        T[:3, :3] = self.R
        T[:3, 3] = self.c
        return T


class Ellipsoid(_Posed):
    kind = "ellipsoid"

    def __init__(self, T, radii):
        super().__init__(T)
        self.radii = np.asarray(radii, dtype=float)

    def h(self, n):
        return float(self.c @ n + np.linalg.norm(self.radii * self.ldir(n)))

    def argsup(self, n):
        l = self.ldir(n)
        d = np.linalg.norm(self.radii * l)
        if d == 0:
            return self.c.copy()
        return self.glob(self.radii * self.radii * l / d)

    def dist(self, p):
        return _ellipse_dist2d(self.radii, self.loc(p))[0]

    def anchor(self):
        return self.c.copy(), float(self.radii.min())

    def inball(self, p):
        sval = float(np.linalg.norm(self.loc(p) / self.radii))
        return max(0.0, (1.0 - sval) * float(self.radii.min()))

    def size(self):
        return 2 * float(self.radii.max())

    def centre(self):
        return self.c.copy()

    def translated(self, t):
        T = self.pose()
        T[:3, 3] += t
        return Ellipsoid(T, self.radii)

    def bound_radius(self):
        return float(self.radii.max())


class Capsule(_Posed):
    kind = "capsule"

    def __init__(self, T, r, height):
        super().__init__(T)
        self.r = float(r)
        self.hh = float(height) / 2

    def h(self, n):
        l = self.ldir(n)
        return float(self.c @ n + self.hh * abs(l[2]) + self.r * np.linalg.norm(l))

    def argsup(self, n):
        l = self.ldir(n)
        x = self.r * _unit(l)
        x[2] += self.hh if l[2] >= 0 else -self.hh
        return self.glob(x)

    def dist(self, p):
        x = self.loc(p)
        z = min(self.hh, max(-self.hh, x[2]))
        return max(0.0, math.sqrt(x[0] ** 2 + x[1] ** 2 + (x[2] - z) ** 2) - self.r)

    def anchor(self):
        return self.c.copy(), self.r

    def inball(self, p):
        x = self.loc(p)
        z = min(self.hh, max(-self.hh, x[2]))
        return max(0.0, self.r - math.sqrt(x[0] ** 2 + x[1] ** 2 + (x[2] - z) ** 2))

    def size(self):
        return 2 * (self.hh + self.r)

    def centre(self):
        return self.c.copy()

    def translated(self, t):
        T = self.pose()
        T[:3, 3] += t
        return Capsule(T, self.r, 2 * self.hh)

    def bound_radius(self):
        return self.hh + self.r


class Cylinder(_Posed):
    kind = "cylinder"

    def __init__(self, T, r, length):
        super().__init__(T)
        self.r = float(r)
        self.hl = float(length) / 2

    def h(self, n):
        l = self.ldir(n)
        return float(self.c @ n + self.hl * abs(l[2]) + self.r * math.hypot(l[0], l[1]))

    def argsup(self, n):
        l = self.ldir(n)
        s = math.hypot(l[0], l[1])
        x = np.array([self.r, 0.0, 0.0]) if s == 0 else np.array([l[0] / s * self.r, l[1] / s * self.r, 0.0])
        x[2] = self.hl if l[2] >= 0 else -self.hl
        return self.glob(x)

    def dist(self, p):
        x = self.loc(p)
        dr = max(0.0, math.hypot(x[0], x[1]) - self.r)
        dz = max(0.0, abs(x[2]) - self.hl)
        return math.hypot(dr, dz)

    def anchor(self):
        return self.c.copy(), min(self.r, self.hl)

    def inball(self, p):
        x = self.loc(p)
        return max(0.0, min(self.r - math.hypot(x[0], x[1]), self.hl - abs(x[2])))

    def size(self):
        return 2 * max(self.r, self.hl)

    def centre(self):
        return self.c.copy()

    def translated(self, t):
        T = self.pose()
        T[:3, 3] += t
        return Cylinder(T, self.r, 2 * self.hl)

    def bound_radius(self):
        return math.hypot(self.r, self.hl)


class Cone(_Posed):
    """Base disk of radius r in the plane z=0 of the pose, apex at z=height."""
    kind = "cone"

    def __init__(self, T, r, height):
        super().__init__(T)
        self.r = float(r)
        self.height = float(height)

    def h(self, n):
        l = self.ldir(n)
        return float(self.c @ n + max(self.height * l[2], self.r * math.hypot(l[0], l[1])))

    def argsup(self, n):
        l = self.ldir(n)
        s = math.hypot(l[0], l[1])
        if self.height * l[2] >= self.r * s:
            return self.glob(np.array([0.0, 0.0, self.height]))
        if s == 0:
            return self.glob(np.zeros(3))  # whole base disk is extreme: take its centre
        return self.glob(np.array([l[0] / s * self.r, l[1] / s * self.r, 0.0]))

    def dist(self, p):
        x = self.loc(p)
        q = np.array([math.hypot(x[0], x[1]), x[2]])
        return _tri_dist2d(q, np.array([-self.r, 0.0]), np.array([self.r, 0.0]), np.array([0.0, self.height]))

    def anchor(self):
        rho = self.r * self.height / (self.r + math.hypot(self.r, self.height))
        return self.glob(np.array([0.0, 0.0, rho])), rho

    def inball(self, p):
        x = self.loc(p)
        rho, z = math.hypot(x[0], x[1]), x[2]
        side = (self.r * (1.0 - z / self.height) - rho) * self.height / math.hypot(self.r, self.height)
        return max(0.0, min(z, side))

    def size(self):
        return max(2 * self.r, self.height)

    def centre(self):
        return self.glob(np.array([0.0, 0.0, 0.5 * self.height]))

    def translated(self, t):
        T = self.pose()
        T[:3, 3] += t
        return Cone(T, self.r, self.height)

    def bound_radius(self):
        return math.hypot(self.r, self.height)


class Box(_Posed):
    kind = "box"

    def __init__(self, T, size):
        super().__init__(T)
        self.hs = np.asarray(size, dtype=float) / 2

    def h(self, n):
        return float(self.c @ n + self.hs @ np.abs(self.ldir(n)))

    def argsup(self, n):
        l = self.ldir(n)
        return self.glob(np.where(l >= 0, self.hs, -self.hs))

    def dist(self, p):
        return float(np.linalg.norm(np.maximum(np.abs(self.loc(p)) - self.hs, 0.0)))

    def anchor(self):
        return self.c.copy(), float(self.hs.min())

    def inball(self, p):
        return max(0.0, float(np.min(self.hs - np.abs(self.loc(p)))))

    def size(self):
        return 2 * float(self.hs.max())

    def centre(self):
        return self.c.copy()

    def translated(self, t):
        T = self.pose()
        T[:3, 3] += t
        return Box(T, 2 * self.hs)

    def vertices(self):
        out = []
        for sx in (-1, 1):
            for sy in (-1, 1):
                for sz in (-1, 1):
                    out.append(self.glob(self.hs * np.array([sx, sy, sz])))
        return np.array(out)

    def bound_radius(self):
        return float(np.linalg.norm(self.hs))


class Disk(Shape):
    kind = "disk"
    flat = True

    def __init__(self, c, r, normal):
        self.c = np.asarray(c, dtype=float)
        self.r = float(r)
        self.n = np.asarray(normal, dtype=float)

    def h(self, n):
        n = np.asarray(n, dtype=float)
        t = n - float(self.n @ n) * self.n   # tangential component (no 1-k^2 cancellation)
        return float(self.c @ n + self.r * float(np.linalg.norm(t)))

    def argsup(self, n):
        n = np.asarray(n, dtype=float)
        t = n - (self.n @ n) * self.n
        l = np.linalg.norm(t)
        if l == 0:
            return self.c.copy()
        return self.c + self.r * t / l

    def dist(self, p):
        d = np.asarray(p, dtype=float) - self.c
        z = float(d @ self.n)
        rho = float(np.linalg.norm(d - z * self.n))
        return math.hypot(max(0.0, rho - self.r), z)

    def anchor(self):
        return self.c.copy(), 0.0

    def size(self):
        return 2 * self.r

    def centre(self):
        return self.c.copy()

    def translated(self, t):
        return Disk(self.c + t, self.r, self.n)

    def bound_radius(self):
        return self.r


class Ellipse(Shape):
    kind = "ellipse"
    flat = True

    def __init__(self, c, axes, radii):
        self.c = np.asarray(c, dtype=float)
        self.axes = np.asarray(axes, dtype=float)
        self.radii = np.asarray(radii, dtype=float)

    def h(self, n):
        return float(self.c @ n + np.linalg.norm(self.radii * (self.axes @ n)))

    def argsup(self, n):
        l = self.axes @ np.asarray(n, dtype=float)
        d = np.linalg.norm(self.radii * l)
        if d == 0:
            return self.c.copy()
        return self.c + (self.radii * self.radii * l / d) @ self.axes

    def dist(self, p):
        d = np.asarray(p, dtype=float) - self.c
        uv = self.axes @ d
        w = d - uv @ self.axes
        d2 = _ellipse_dist2d(self.radii, uv)[0]
        return math.hypot(d2, float(np.linalg.norm(w)))

    def anchor(self):
        return self.c.copy(), 0.0

    def size(self):
        return 2 * float(self.radii.max())

    def centre(self):
        return self.c.copy()

    def translated(self, t):
        return Ellipse(self.c + t, self.axes, self.radii)

    def bound_radius(self):
        return float(self.radii.max())


class Hull(Shape):
    """Convex hull of world-frame vertices (used for ConvexHullVertices and MeshGraph)."""
    kind = "hull"

    def __init__(self, vertices, kind="hull"):
        self.v = np.asarray(vertices, dtype=float)
        self.kind = kind
        self._fac = None

    def _facets(self):
        if self._fac is None:
            from scipy.spatial import ConvexHull
            ch = ConvexHull(self.v, qhull_options="Qt")
            tri = ch.simplices
            self._fac = (self.v[tri[:, 0]], self.v[tri[:, 1]], self.v[tri[:, 2]],
                         ch.equations[:, :3].copy(), ch.equations[:, 3].copy())
        return self._fac

    def h(self, n):
        return float(np.max(self.v @ n))

    def argsup(self, n):
        return self.v[int(np.argmax(self.v @ n))].copy()

    def inside_margin(self, p):
        """min over facets of (offset - n.p): >= 0 iff inside."""
        A, B, C, N, off = self._facets()
        return float(np.min(-(N @ p + off)))

    def dist(self, p):
        p = np.asarray(p, dtype=float)
        A, B, C, N, off = self._facets()
        if np.all(N @ p + off <= 0):
            return 0.0
        return _tris_dist(p, A, B, C)[0]

    def anchor(self):
        c = self.v.mean(axis=0)
        return c, max(0.0, self.inside_margin(c))

    def inball(self, p):
        return max(0.0, self.inside_margin(np.asarray(p, dtype=float)))

    def size(self):
        return float(np.max(np.linalg.norm(self.v - self.v.mean(axis=0), axis=1))) * 2

    def centre(self):
        return self.v.mean(axis=0)

    def translated(self, t):
        t = np.asarray(t, dtype=float)
        H = Hull(self.v + t, self.kind)
        if self._fac is not None:
            A, B, C, N, off = self._fac
            H._fac = (A + t, B + t, C + t, N, off - N @ t)
        return H

    def bound_radius(self):
        return float(np.max(np.linalg.norm(self.v - self.v.mean(axis=0), axis=1)))

    def face_normals(self):
        A, B, C, N, off = self._facets()
        return N


class Margin(Shape):
    def __init__(self, inner, m):
        self.inner = inner
        self.m = float(m)
        self.kind = "margin(" + inner.kind + ")"

    def h(self, n):
        return self.inner.h(n) + self.m * float(np.linalg.norm(n))

    def argsup(self, n):
        return self.inner.argsup(n) + self.m * _unit(np.asarray(n, dtype=float))

    def dist(self, p):
        return max(0.0, self.inner.dist(p) - self.m)

    def anchor(self):
        a, d = self.inner.anchor()
        return a, d + self.m

    def inball(self, p):
        d = self.inner.dist(p)
        return self.inner.inball(p) + self.m if d == 0 else max(0.0, self.m - d)

    def size(self):
        return self.inner.size() + 2 * self.m

    def centre(self):
        return self.inner.centre()

    def translated(self, t):
        return Margin(self.inner.translated(t), self.m)

    def bound_radius(self):
        return self.inner.bound_radius() + self.m


# --------------------------------------------------------------------------
# pair-level quantities

def lower_bound(A, B, n):
    """Separation of A and B along unit n (pointing from A to B): a lower bound
    of dist(A,B); positive => separated by at least that much."""
    n = np.asarray(n, dtype=float)
    return -B.h(-n) - A.h(n)


def extent(A, B, n):
    """g(n) = h_A(n) + h_B(-n): extent of A-B along n."""
    return A.h(n) + B.h(-n)
