"""Exact minimum-norm point of the convex hull of 1..4 points (rational arithmetic).

Enumerates every non-empty subset S of the points; if S is affinely independent
the projection of the origin onto aff(S) is computed exactly; if its barycentric
coordinates are all >= 0 it is a candidate.  The minimum-norm candidate is the
minimum-norm point of the hull (Caratheodory: the optimum lies in the relative
interior of some affinely independent sub-simplex, for which it is the
projection onto the affine hull).  Shares no code with distance3d.
"""
from fractions import Fraction as F
from itertools import combinations


def _dot(a, b):
    return a[0] * b[0] + a[1] * b[1] + a[2] * b[2]


def _solve(G, r):
    """Gaussian elimination over Fractions; returns None if singular."""
    n = len(G)
    M = [list(G[i]) + [r[i]] for i in range(n)]
    for c in range(n):
        piv = None
        for i in range(c, n):
            if M[i][c] != 0:
                piv = i
                break
        if piv is None:
            return None
        M[c], M[piv] = M[piv], M[c]
        pv = M[c][c]
        for i in range(n):
            if i != c and M[i][c] != 0:
                f = M[i][c] / pv
                for j in range(c, n + 1):
                    M[i][j] -= f * M[c][j]
    return [M[i][n] / M[i][i] for i in range(n)]


def project_affine(pts):
    """Barycentric coordinates of the projection of 0 onto aff(pts); None if
    the points are affinely dependent."""
    p0 = pts[0]
    m = len(pts) - 1
    if m == 0:
        return [F(1)]
    E = [[pts[i + 1][c] - p0[c] for c in range(3)] for i in range(m)]
    G = [[_dot(E[i], E[j]) for j in range(m)] for i in range(m)]
    r = [-_dot(E[i], p0) for i in range(m)]
    mu = _solve(G, r)
    if mu is None:
        return None
    return [1 - sum(mu)] + mu


def min_norm(points):
    """points: list of 3-tuples of Fractions/ints. Returns (norm_sq, point, subset_indices, weights)."""
    pts = [tuple(F(c) for c in p) for p in points]
    best = None
    n = len(pts)
    for k in range(1, n + 1):
        for S in combinations(range(n), k):
            sub = [pts[i] for i in S]
            lam = project_affine(sub)
            if lam is None or any(l < 0 for l in lam):
                continue
            v = tuple(sum(lam[i] * sub[i][c] for i in range(k)) for c in range(3))
            nsq = _dot(v, v)
            if best is None or nsq < best[0]:
                best = (nsq, v, S, lam)
    return best


def dist_sq_to_hull(points, q):
    """Exact squared distance of q to conv(points)."""
    qq = tuple(F(c) for c in q)
    shifted = [tuple(F(c) - qq[i] for i, c in enumerate(p)) for p in points]
    return min_norm(shifted)[0]
