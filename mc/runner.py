"""Common driver: enumerate states, run them in the fork pool, collect counters,
triage violations against known findings, confirm by replay in a fresh worker,
write evidence and replay artefacts.

A check module provides:

  PROPERTY            'C18'
  TECHNIQUE / RULE    strings for the evidence
  def warmup()                        -> compile everything once in the parent
  def enumerate_states(tier, seed)    -> list of JSON-able descriptors
  def run_state(desc)                 -> Result (dict), see below
  optional def finalize(ctx)          -> extra global checks / extra coverage

run_state returns a dict:
  {'viol': [ {kind, entry, sig, detail}... ],     # property violations
   'n_eval': int,                                 # implementation executions
   'n_trans': int,                                # transitions taken (defaults n_eval)
   'nontrivial': [key,...],                       # keys of non-trivial distinct cases
   'hist': {name: {bucket: count}},               # branch/region histograms
   'traces': int}                                 # executions compared step by step
"""
import collections
import hashlib
import importlib
import json
import os
import sys
import time

from . import bootstrap, pool, findings

# VERIF_OUT redirects evidence and replay files (mutation runs against a scratch tree must not overwrite the real evidence)
_OUT = os.environ.get("VERIF_OUT") or bootstrap.VERIF
EVID_DIR = os.path.join(_OUT, "evidence")
REPLAY_DIR = os.path.join(_OUT, "replays")


def jdefault(o):
    import numpy as np
    if isinstance(o, np.ndarray):
        return o.tolist()
    if isinstance(o, (np.floating,)):
        return float(o)
    if isinstance(o, (np.integer,)):
        return int(o)
    if isinstance(o, (np.bool_,)):
        return bool(o)
    if isinstance(o, (set, frozenset)):
        return sorted(o)
    if isinstance(o, tuple):
        return list(o)
    if isinstance(o, bytes):
        return o.hex()
    return repr(o)


def dumps(o, **kw):
    return json.dumps(o, default=jdefault, **kw)


def _hash(o):
    return hashlib.sha256(dumps(o, sort_keys=True).encode()).hexdigest()[:16]


class Ctx:
    def __init__(self, mod, tier, seed):
        self.mod = mod
        self.pid = mod.PROPERTY
        self.tier = tier
        self.seed = seed
        self.n_states = 0
        self.n_eval = 0
        self.n_trans = 0
        self.n_traces = 0
        self.nontrivial = set()
        self.hist = collections.defaultdict(collections.Counter)
        self.viol = []          # (desc, violation)
        self.samples = []
        self.extra = {}
        self.caps = []
        self.slowest = (0.0, None)
        self.nontrivial_n = 0
        self.obs = {}


_MOD = None


_CONST_SNAPSHOT = None


def _module_constants():
    """Module-level numpy arrays of distance3d (BOX_COORDS, RECTANGLE_COORDS, ALL_TRUE, ...): shared state every call reads."""
    import numpy as np
    out = {}
    for name, mod in list(sys.modules.items()):
        if name.startswith("distance3d") and mod is not None:
            for k, v in list(vars(mod).items()):
                if isinstance(v, np.ndarray) and k.isupper():
                    out[name + "." + k] = v
    return out


def _check_module_constants(r):
    """Invariant on every explored state: no library call writes to a module-level array (a scratch buffer hoisted to module
    scope would make results history dependent; compiled code freezes globals, so only the interpreted mode would show it)."""
    global _CONST_SNAPSHOT
    import numpy as np
    cur = _module_constants()
    if _CONST_SNAPSHOT is None:
        _CONST_SNAPSHOT = {k: (v, v.copy()) for k, v in cur.items()}
        return
    for k, (obj, val) in list(_CONST_SNAPSHOT.items()):
        now = cur.get(k)
        if now is None or now.shape != val.shape or not np.array_equal(now, val):
            r.setdefault("viol", []).append({"kind": "module_constant_mutated", "entry": k, "sig": "module_constant_mutated:" + k,
                                             "detail": {"before": val, "after": now}})
            _CONST_SNAPSHOT[k] = (now, now.copy()) if now is not None else (obj, val)
    for k, v in cur.items():
        if k not in _CONST_SNAPSHOT:
            _CONST_SNAPSHOT[k] = (v, v.copy())


def _run_one(desc):
    t0 = time.time()
    if _CONST_SNAPSHOT is None:
        _check_module_constants({})
    try:
        r = _MOD.run_state(desc)
    except Exception as e:  # neither a harness bug nor an unguarded library exception may masquerade as a pass or crash the run:
        import traceback     # it is reported as a violation of this state (never happens on the unchanged tree)
        tb = traceback.format_exc().strip().splitlines()
        where = [l.strip() for l in tb if bootstrap.REPO in l][-1:] or [l.strip() for l in tb if "File" in l][-1:] or ["?"]
        r = {"viol": [{"kind": "uncaught_exception:" + type(e).__name__, "entry": "run_state",
                       "sig": "run_state:uncaught_exception:" + type(e).__name__,
                       "detail": {"exc": repr(e)[:300], "raised_in": where[0][:300], "traceback_tail": tb[-6:]}}], "n_eval": 1}
    _check_module_constants(r)
    r["_t"] = time.time() - t0
    return r


def load(prop):
    return importlib.import_module("mc.props." + prop.lower())


def write_replay(pid, desc, v):
    d = os.path.join(REPLAY_DIR, pid)
    os.makedirs(d, exist_ok=True)
    rec = {"property": pid, "desc": desc, "violation": v,
           "how": "./check replay %s" % ("replays/%s/<this file>" % pid)}
    path = os.path.join(d, _hash([desc, v.get("sig"), v.get("kind")]) + ".json")
    with open(path, "w") as f:
        f.write(dumps(rec, indent=1))
    return path


def _confirm(mod, desc, v):
    """Replay-twice rule: re-run the state in a fresh forked worker."""
    got = []
    ab = pool.run_chunks(_run_one, [[desc]], nproc=1, timeout=getattr(mod, "STATE_TIMEOUT", 60.0),
                         on_result=lambda item, res: got.append(res))
    if ab:
        return v.get("kind") in ("crash", "hang")
    for r in got:
        for w in r.get("viol", []):
            if w.get("sig") == v.get("sig"):
                return True
    return False


def run_check(prop, tier=None, seed=None, only=None):
    global _MOD
    t_start = time.time()
    tier = tier or bootstrap.tier()
    seed = bootstrap.seed() if seed is None else seed
    mod = load(prop)
    _MOD = mod
    pid = mod.PROPERTY
    ctx = Ctx(mod, tier, seed)
    mode = getattr(mod, "MODE", "jit")
    bootstrap.init(mode)
    import warnings
    warnings.filterwarnings("ignore")
    try:
        mod.warmup()
    except BaseException as e:  # noqa  (the warm-up makes ordinary library calls: if one raises, that is a finding, not a harness crash)
        import traceback
        tb = traceback.format_exc().strip().splitlines()
        where = [l.strip() for l in tb if bootstrap.REPO in l][-1:] or ["?"]
        ctx.viol.append(({"phase": "warmup"}, {"kind": "exception_in_ordinary_call:" + type(e).__name__, "entry": "warmup",
                                               "sig": "warmup:exception:" + type(e).__name__, "global": True,
                                               "detail": {"exc": repr(e)[:400], "raised_in": where[0][:300]}}))
    states = mod.enumerate_states(tier, seed) if only is None else only
    if isinstance(states, tuple):
        states, meta = states
        ctx.extra.update(meta)
    ctx.n_states = len(states)
    chunk = getattr(mod, "CHUNK", 64)
    chunks = pool.chunked(states, chunk)
    step = max(1, len(states) // 8)

    def on_result(desc, r):
        ctx.n_eval += r.get("n_eval", 1)
        ctx.n_trans += r.get("n_trans", r.get("n_eval", 1))
        ctx.n_traces += r.get("traces", r.get("n_eval", 1))
        ctx.nontrivial_n += r.get("nontrivial_n", 0)
        for k in r.get("nontrivial", ()):
            ctx.nontrivial.add(k if isinstance(k, str) else dumps(k))
        for name, h in r.get("hist", {}).items():
            ctx.hist[name].update(h)
        for v in r.get("viol", ()):
            if "dsig" not in v and isinstance(desc, dict):
                v["dsig"] = v.get("sig", "") + "@" + ",".join("%s=%s" % (k, desc[k]) for k in sorted(desc))
            ctx.viol.append((desc, v))
        if len(ctx.samples) < 6 and r.get("sample") is not None:
            ctx.samples.append(r["sample"])
        if "obs" in r:
            ctx.obs[dumps(desc, sort_keys=True)] = r["obs"]
        if r["_t"] > ctx.slowest[0]:
            ctx.slowest = (r["_t"], desc)

    quiet = os.environ.get("VERIF_QUIET")

    def progress(n, tot):
        if not quiet and (n % max(1, tot // 10) == 0):
            print("  [%s] %d/%d chunks, %.0fs, viol=%d" % (pid, n, tot, time.time() - t_start, len(ctx.viol)),
                  file=sys.stderr, flush=True)

    abnormal = pool.run_chunks(_run_one, chunks, timeout=getattr(mod, "STATE_TIMEOUT", 60.0),
                               on_result=on_result, progress=progress)
    for desc, status, payload in abnormal:
        ctx.viol.append((desc, {"kind": status, "entry": "process", "sig": "%s:%s" % (status, _hash(desc)),
                                "detail": payload}))
    if hasattr(mod, "finalize"):
        mod.finalize(ctx)

    # ---- triage
    kf = findings.load()
    matched = collections.Counter()
    matched_examples = {}
    new = []
    for desc, v in ctx.viol:
        f = findings.match(kf, pid, v)
        if f is not None:
            matched[f["id"]] += 1
            matched_examples.setdefault(f["id"], (desc, v))
        else:
            new.append((desc, v))
    # de-duplicate new violations by signature, confirm by replay
    by_sig = collections.OrderedDict()
    for desc, v in new:
        by_sig.setdefault(v.get("sig"), (desc, v))
    confirmed, unrepro = [], []
    max_confirm = int(os.environ.get("VERIF_MAX_CONFIRM", "12"))
    for i, (sig, (desc, v)) in enumerate(by_sig.items()):
        if i >= max_confirm:
            confirmed.append((desc, v))  # not replayed individually (cap), still reported
            continue
        if getattr(mod, "NO_CONFIRM", False) or v.get("global") or _confirm(mod, desc, v):
            confirmed.append((desc, v))
        else:
            unrepro.append((desc, v))
    out_lines = []
    for fid, n in sorted(matched.items()):
        f = [x for x in kf if x["id"] == fid][0]
        out_lines.append("KNOWN-FINDING: property=%s %s [%s, %d states]" % (pid, f["what"], fid, n))
    replay_paths = []
    for desc, v in confirmed:
        p = write_replay(pid, desc, v)
        replay_paths.append(p)
        out_lines.append("VIOLATION property=%s replay=%s" % (pid, p))
        out_lines.append("  kind=%s entry=%s sig=%s detail=%s" % (v.get("kind"), v.get("entry"), v.get("sig"),
                                                               dumps(v.get("detail"))[:400]))
    for desc, v in unrepro:
        out_lines.append("WARNING property=%s unreproducible observation sig=%s" % (pid, v.get("sig")))

    wall = time.time() - t_start
    cov = {
        "states": max(1, ctx.n_states),
        "transitions": max(1, ctx.n_trans),
        "traces_validated_against_impl": ctx.n_traces,
        "samples": ctx.samples or [states[0] if states else None],
        "evaluations": max(1, ctx.n_eval),
        "distinct_nontrivial": len(ctx.nontrivial) + ctx.nontrivial_n,
        "rule": getattr(mod, "RULE", ""),
        "exhaustive": bool(ctx.extra.pop("exhaustive", getattr(mod, "EXHAUSTIVE", True))) and not ctx.caps,
        "bound_completed": ctx.extra.pop("bound_completed", getattr(mod, "BOUND", "")),
        "caps_hit": ctx.caps,
        "histograms": {k: dict(sorted(v.items(), key=lambda kv: str(kv[0]))) for k, v in ctx.hist.items()},
        "known_findings_matched": dict(matched),
        "violations_total_states": len(ctx.viol),
        "new_violation_signatures": len(by_sig),
        "unreproducible": [v.get("sig") for _, v in unrepro],
        "mode": mode,
        "slowest_state_s": round(ctx.slowest[0], 3),
        "technique": getattr(mod, "TECHNIQUE", ""),
    }
    cov.update(ctx.extra)
    ev = {
        "property_id": pid, "tier": tier, "seed": seed, "level": "model_checking",
        "coverage": cov,
        "assumptions": getattr(mod, "ASSUMPTIONS", []),
        "wall_s": round(wall, 2),
        "violations": len(confirmed),
    }
    write_evidence(pid, ev)
    print("[%s] tier=%s seed=%d states=%d transitions=%d evaluations=%d nontrivial=%d "
          "known=%d new=%d wall=%.1fs exhaustive=%s" % (
              pid, tier, seed, ctx.n_states, ctx.n_trans, ctx.n_eval, len(ctx.nontrivial) + ctx.nontrivial_n,
              sum(matched.values()), len(confirmed), wall, cov["exhaustive"]))
    for l in out_lines:
        print(l)
    sys.stdout.flush()
    return 1 if confirmed else 0


def write_evidence(pid, ev):
    os.makedirs(EVID_DIR, exist_ok=True)
    txt = dumps(ev, indent=1)
    try:
        import jsonschema
        with open("/root/.vp/EVIDENCE.schema.json") as f:
            schema = json.load(f)
        jsonschema.validate(json.loads(txt), schema)
    except ImportError:
        pass
    except FileNotFoundError:
        pass
    path = os.path.join(EVID_DIR, pid + ".json")
    tmp = path + ".tmp"
    with open(tmp, "w") as f:
        f.write(txt)
    os.replace(tmp, path)


def replay(path):
    global _MOD
    with open(path) as f:
        rec = json.load(f)
    mod = load(rec["property"])
    _MOD = mod
    bootstrap.init(getattr(mod, "MODE", "jit"))
    import warnings
    warnings.filterwarnings("ignore")
    try:
        mod.warmup()
    except BaseException as e:  # noqa
        print("warm-up call raised %r" % (e,))
    r = mod.run_state(rec["desc"])
    print(dumps({"desc": rec["desc"], "violations_now": r.get("viol", [])}, indent=1))
    sigs = [v.get("sig") for v in r.get("viol", [])]
    want = rec["violation"].get("sig")
    if want in sigs:
        print("REPRODUCED property=%s sig=%s" % (rec["property"], want))
        return 1
    print("NOT-REPRODUCED (the recorded violation does not occur on the current tree)")
    return 0
