"""C16 - hydroelastic contact forces obey action-reaction, symmetry and frame invariance.

Transition relations on body-pair scenes (6 x 6 factories, contact placements, general rotations of BOTH bodies):
  R1  f12 = -f21
  R2  swapping the bodies swaps the two wrenches
  R3  moving both bodies by one rigid motion g rotates both forces by g (same intersection flag)
  R4  repeating the call on the same (internally re-expressed) bodies reproduces the result
  R5  interleaving calls with a third body does not change the result (all call sequences of length <= 3)
  R6  use_aabb_trees=True yields exactly the brute-force set of intersecting tetrahedron pairs
each within 5 % of the force magnitude.
"""
import itertools

import numpy as np

from .. import hydro
from .. import scenes as sc
from . import c15

PROPERTY = "C16"
TECHNIQUE = ("bounded-exhaustive enumeration of body-pair scenes x transition relations (swap, common rigid motion, repeat, "
             "interleaved call histories of length <= 3, broad-phase variant) on the real contact_forces / find_contact_surface")
RULE = ("state = (factory pair, placement, orientation of body 1 and of body 2); transitions = swap, 5 common rigid motions, repeat, "
        "6 interleaved call sequences with a third body, tree broad phase; non-trivial = state with contact and a non-identity "
        "rotation of body 2; distinct = distinct state")
ASSUMPTIONS = ["tolerance 5% of the force magnitude (discretisation noise of the model)", "forces are compared as 3-vectors; torques (about the bodies' centres of mass) only for swap/repeat"]
CHUNK = 1
STATE_TIMEOUT = 3600.0

PLACEMENTS = [0, 1, 2, 3]    # indices into c15.BODY_PLACEMENTS: stack small, stack deep, offset, side
ORI_A = [0, 24]
ORI_B = [0, 5, 24, 26]
MOTIONS = [(5, (0.0, 0.0, 0.0)), (0, (1.0, 2.0, 3.0)), (25, (0.3, -0.2, 0.4)), (13, (100.0, 50.0, -20.0)), (27, (-1.0, 0.5, 0.25))]
REL = 0.05


def warmup():
    c15.warmup()


def enumerate_states(tier, seed):
    states = []
    ori_a = [0, 24, 5, 26, 28, 13] if tier == "thorough" else ORI_A
    ori_b = [0, 5, 24, 26, 25, 27, 28, 31, 13, 7] if tier == "thorough" else ORI_B
    for fa, fb in itertools.product(hydro.FACTORIES, hydro.FACTORIES):
        for pl in (PLACEMENTS + [5] if tier == "thorough" else PLACEMENTS):
            for oa in ori_a:
                for ob in (ori_b if tier == "thorough" else ORI_B[:3] if (pl in (0, 2)) else ORI_B[:2]):
                    states.append({"a": fa, "b": fb, "pl": pl, "oa": oa, "ob": ob})
    states = hist_states(tier) + states
    return states, {"bound_completed": "call-history search on live bodies (4 scenes x 2 frames, 24 operations, depth <= %d or closure, canonical-state de-duplication); "
                                       "36 factory pairs x %s placements x %d orientations of body 1 x %s orientations of body 2, each with "
                                       "swap, 5 rigid motions, repeat, 6 interleaved sequences and the tree broad phase"
                                       % ((6, "5 (4 contact + touching)", 6, "10") if tier == "thorough" else (3, "4 contact", 2, "2-3")), "exhaustive": True}


# ------------------------------------------------------------------ explicit-state search over call histories on live bodies
#
# RigidBody caches derived data lazily (_tetrahedra_points, _com, _aabbs, _aabb_tree) and find_contact_surface re-expresses
# its first argument in the frame of the second.  State = for each of four live bodies (a, b, c = a box in another rotated
# frame, d = a copy of b shifted by a few millimetres) the frame it is currently expressed in and which caches are filled
# (every non-None private attribute, so a newly introduced cache enlarges the state space instead of hiding in it).
# Transitions = contact_forces / contact_forces(return_details=True) / find_contact_surface(use_aabb_trees=True) on the
# ordered pairs with contact, and an in-place pose update `rb.body2origin_[:3, 3] += v` of body a or b (once each).  Breadth-first search with canonical-state de-duplication; on every transition the result
# must equal the result of the same call on freshly built bodies (1e-6 relative) and afterwards every filled cache of every
# body must equal the value recomputed from its vertices.

HIST_SCENES = [("box", "sphere", 0), ("capsule", "box", 2), ("cylinder", "ellipsoid", 0), ("cube", "cube", 2)]
HIST_PAIRS = ["ab", "ba", "ac", "ca", "ad", "da", "bc", "cb"]
HIST_FLAVOURS = ["cf", "cfd", "fst"]
HIST_FRAMES = [(0, (0.0, 0.0, 0.0)), (25, (800.0, 500.0, 300.0))]


def hist_states(tier):
    out = []
    for si in range(len(HIST_SCENES)):
        for fr in range(len(HIST_FRAMES)):
            out.append({"kind": "hist", "scene": si, "frame": fr, "depth": 3 if tier == "quick" else 4})
    return out


def _hist_poses(desc):
    fa, fb, pl = HIST_SCENES[desc["scene"]]
    TA, TB, _ = c15.body_poses({"a": fa, "b": fb, "pl": pl, "ob": 5, "g": 0})
    TC = hydro.compose(TB, hydro.rigid(9, (0.3, 0.25, -0.2)))
    TD = TB.copy()
    TD[:3, 3] += [0.0012, -0.001, 0.0008]     # < 1e-5 x 300: inside numpy.allclose of the far frame
    G = hydro.rigid(*HIST_FRAMES[desc["frame"]])
    return {"a": (fa, hydro.compose(G, TA)), "b": (fb, hydro.compose(G, TB)), "c": ("box", hydro.compose(G, TC)), "d": (fb, hydro.compose(G, TD))}


def _hist_apply(bodies, op):
    from distance3d import hydroelastic_contact as hc
    fl, (x, y) = op[0], op[1]
    if fl == "cf":
        i, w12, w21 = hc.contact_forces(bodies[x], bodies[y])
        return {"flag": bool(i), "w12": np.asarray(w12, dtype=float), "w21": np.asarray(w21, dtype=float)}
    if fl == "cfd":
        i, w12, w21, det = hc.contact_forces(bodies[x], bodies[y], return_details=True)
        return {"flag": bool(i), "w12": np.asarray(w12, dtype=float), "w21": np.asarray(w21, dtype=float)}
    cs = hc.find_contact_surface(bodies[x], bodies[y], use_aabb_trees=(fl == "fst"))
    pairs = {}
    if cs.intersection:
        for k, (i, j) in enumerate(zip(cs.intersecting_tetrahedra1, cs.intersecting_tetrahedra2)):
            pairs[(int(i), int(j))] = float(cs.contact_areas[k])
    return {"flag": bool(cs.intersection), "pairs": pairs}


def _hist_key(bodies):
    key = []
    for n in sorted(bodies):
        rb = bodies[n]
        filled = tuple(sorted(k for k, v in vars(rb).items() if k.startswith("_") and v is not None and k not in ("_youngs_modulus", "_artist")))
        key.append((n, tuple(np.round(np.asarray(rb.body2origin_, dtype=float), 6).ravel().tolist()), filled))
    return repr(key)


def _hist_cache_check(bodies):
    """Every filled cache equals the value recomputed from the current vertices."""
    from distance3d.hydroelastic_contact import _mesh_processing as mp
    bad = []
    for n, rb in bodies.items():
        tp = np.asarray(rb.vertices_)[np.asarray(rb.tetrahedra_)]
        scale = max(1.0, float(np.max(np.abs(tp))))
        if rb._tetrahedra_points is not None and not np.array_equal(rb._tetrahedra_points, tp):
            bad.append((n, "_tetrahedra_points"))
        if rb._com is not None:
            vol = np.abs(np.linalg.det(tp[:, 1:] - tp[:, :1])) / 6.0
            com = (tp.mean(axis=1) * vol[:, None]).sum(axis=0) / vol.sum()
            if np.linalg.norm(np.asarray(rb._com) - com) > 1e-9 * scale:
                bad.append((n, "_com"))
        boxes = np.stack([tp.min(axis=1), tp.max(axis=1)], axis=2)
        if rb._aabbs is not None and not np.allclose(np.asarray(rb._aabbs), boxes, rtol=0, atol=1e-12 * scale):
            bad.append((n, "_aabbs"))
        if rb._aabb_tree is not None:
            t = rb._aabb_tree
            leaves = sorted(tuple(np.round(np.asarray(t.aabbs[i]), 9).ravel()) for i in range(int(t.filled_len)) if t.nodes[i, 3] == 1)
            if leaves != sorted(tuple(np.round(bx, 9).ravel()) for bx in boxes):
                bad.append((n, "_aabb_tree"))
    return bad


def run_hist(desc):
    import copy
    poses = _hist_poses(desc)
    cls = "%s-%s:%s" % (HIST_SCENES[desc["scene"]][0], HIST_SCENES[desc["scene"]][1], "origin" if desc["frame"] == 0 else "far_rotated_frame")
    viol, seen = [], set()

    def add(v):
        if v["sig"] not in seen:
            seen.add(v["sig"])
            viol.append(v)

    MOVE = np.array([0.01, -0.005, -0.01])     # in-place pose update `rb.body2origin_[:3, 3] += v * dt` as the example scripts do it
    MOVABLE = ("a", "b")

    def fresh(moved=()):
        out = {}
        for n, (f, T) in poses.items():
            T2 = np.array(T, dtype=float)
            if n in moved:
                T2[:3, 3] += MOVE
            out[n] = hydro.make_body(f, np.ascontiguousarray(T2))
        return out
    calls = [(fl, pr) for pr in HIST_PAIRS for fl in HIST_FLAVOURS]
    ops = calls + [("mv", x) for x in MOVABLE]
    ref_cache = {}

    def ref_of(op, moved):
        k = (op, moved)
        if k not in ref_cache:
            ref_cache[k] = _hist_apply(fresh(moved), ("cf" if op[0] == "cfd" else "fsb" if op[0] == "fst" else op[0], op[1]))
        return ref_cache[k]
    try:
        for op in calls:
            ref_of(op, ())
    except Exception as e:  # noqa
        return {"viol": [_viol("contact_forces", "exception_on_fresh_bodies:" + type(e).__name__, cls, {"exc": repr(e)[:300]})], "n_eval": 1}
    n_eval = len(calls)
    init = fresh()
    frontier = [([], init, ())]
    visited = {_hist_key(init) + repr(())}
    n_trans, depth_done = 0, 0
    contact_ops = 0
    for depth in range(1, desc["depth"] + 1):
        nxt = []
        for hist, bodies, moved in frontier:
            for op in ops:
                if op[0] == "mv":
                    if op[1] in moved:
                        continue      # every body is moved at most once (two positions per body)
                    b2 = copy.deepcopy(bodies)
                    b2[op[1]].body2origin_[:3, 3] += MOVE
                    m2 = tuple(sorted(moved + (op[1],)))
                    h2 = hist + ["move_in_place(%s)" % op[1]]
                    n_trans += 1
                    k = _hist_key(b2) + repr(m2)
                    if k not in visited:
                        visited.add(k)
                        nxt.append((h2, b2, m2))
                    continue
                b2 = copy.deepcopy(bodies)
                m2 = moved
                h2 = hist + ["%s(%s,%s)" % (op[0], op[1][0], op[1][1])]
                try:
                    res = _hist_apply(b2, op)
                    r0 = ref_of(op, moved)
                except Exception as e:  # noqa
                    add(_viol("contact_forces", "exception_history:" + type(e).__name__, cls, {"history": h2, "exc": repr(e)[:300]}))
                    continue
                n_trans += 1
                n_eval += 1
                if "w12" in res:
                    f = max(float(np.linalg.norm(r0["w12"][:3])), 1e-300)
                    ts = max(float(np.linalg.norm(r0["w12"][3:])), float(np.linalg.norm(r0["w21"][3:])), f)
                    contact_ops += 1 if r0["flag"] else 0
                    if res["flag"] != r0["flag"] and max(f, float(np.linalg.norm(res["w12"][:3]))) > 1e-12:
                        add(_viol("contact_forces", "history_changes_intersection_flag", cls, {"history": h2}))
                    elif r0["flag"] and not (np.linalg.norm(res["w12"][:3] - r0["w12"][:3]) <= 1e-6 * f and np.linalg.norm(res["w21"][:3] - r0["w21"][:3]) <= 1e-6 * f):
                        add(_viol("contact_forces" if op[0] == "cf" else "contact_forces(return_details=True)", "history_dependent_force", cls,
                                  {"history": h2, "fresh_bodies": r0["w12"], "after_history": res["w12"]}))
                    elif r0["flag"] and not (np.linalg.norm(res["w12"][3:] - r0["w12"][3:]) <= 1e-6 * ts and np.linalg.norm(res["w21"][3:] - r0["w21"][3:]) <= 1e-6 * ts):
                        add(_viol("contact_forces" if op[0] == "cf" else "contact_forces(return_details=True)", "history_dependent_torque", cls,
                                  {"history": h2, "fresh_bodies": r0["w12"], "after_history": res["w12"]}))
                else:
                    big0 = {k for k, a in r0["pairs"].items() if a >= 1e-9}
                    big1 = {k for k, a in res["pairs"].items() if a >= 1e-9}
                    if big0 != big1:
                        add(_viol("find_contact_surface(use_aabb_trees=True)", "history_dependent_pair_set", cls,
                                  {"history": h2, "brute_force_on_fresh_bodies": len(big0), "after_history": len(big1),
                                   "missing": sorted(big0 - big1)[:5], "extra": sorted(big1 - big0)[:5]}))
                for n, what in _hist_cache_check(b2):
                    add(_viol("RigidBody", "stale_cache:" + what, cls, {"history": h2, "body": n}))
                k = _hist_key(b2) + repr(m2)
                if k not in visited:
                    visited.add(k)
                    nxt.append((h2, b2, m2))
        depth_done = depth
        frontier = nxt
        if not frontier:
            break
    closed = not frontier
    return {"viol": viol, "n_eval": n_eval, "n_trans": n_trans, "traces": n_trans, "nontrivial_n": len(visited),
            "hist": {"history_search": {"%s:distinct_states" % cls: len(visited), "%s:transitions" % cls: n_trans,
                                        "%s:%s" % (cls, "closed" if closed else "depth_%d" % depth_done): 1}},
            "sample": {"desc": desc, "distinct_states": len(visited), "transitions": n_trans, "closure_reached": closed,
                       "operations": ["%s(%s,%s)" % (o[0], o[1][0], o[1][1]) for o in calls] + ["move_in_place(%s)" % x for x in MOVABLE]} if desc["scene"] == 0 else None}


def _viol(entry, kind, cls, detail):
    return {"kind": kind, "entry": entry, "sig": "%s:%s:%s" % (entry, kind, cls), "detail": detail}


def poses(desc):
    d15 = {"a": desc["a"], "b": desc["b"], "pl": desc["pl"], "ob": desc["ob"], "g": 0}
    TA, TB, pl = c15.body_poses(d15)
    # rotate body A in place (about its own centre) as well
    RA = np.eye(4)
    RA[:3, :3] = sc.ROTS[desc["oa"]]
    return hydro.compose(TA, RA), TB, pl


def call(desc, TA, TB, swap=False):
    from distance3d import hydroelastic_contact as hc
    a = hydro.make_body(desc["a"], TA)
    b = hydro.make_body(desc["b"], TB)
    if swap:
        i, w12, w21 = hc.contact_forces(b, a)
    else:
        i, w12, w21 = hc.contact_forces(a, b)
    return bool(i), np.asarray(w12, dtype=float), np.asarray(w21, dtype=float), a, b


def close(x, y, scale):
    # forces / torques below 1e-9 (grazing contact of the 'touching' placement: polygons of area ~1e-40) are zero for every purpose
    return float(np.linalg.norm(np.asarray(x) - np.asarray(y))) <= REL * scale + 1e-9


def run_state(desc):
    if desc.get("kind") == "hist":
        return run_hist(desc)
    return run_scene(desc)


def run_scene(desc):
    from distance3d import hydroelastic_contact as hc
    TA, TB, pl = poses(desc)
    rot2 = "identity_rot2" if desc["ob"] == 0 else "rotated_body2"
    cls = "%s-%s:%s" % (desc["a"], desc["b"], rot2)
    viol, seen = [], set()

    def add(v):
        if v["sig"] not in seen:
            seen.add(v["sig"])
            viol.append(v)
    ctx = {"desc": desc}
    try:
        i0, w12, w21, a, b = call(desc, TA, TB)
    except Exception as e:  # noqa
        return {"viol": [_viol("contact_forces", "exception:" + type(e).__name__, cls, dict(ctx, exc=repr(e)[:300]))], "n_eval": 1}
    n_eval = 1
    if not (np.all(np.isfinite(w12)) and np.all(np.isfinite(w21))):
        return {"viol": [_viol("contact_forces", "nonfinite", cls, dict(ctx, w12=w12, w21=w21))], "n_eval": 1}
    f = float(np.linalg.norm(w12[:3]))
    size = 1.0
    tscale = max(float(np.linalg.norm(w12[3:])), float(np.linalg.norm(w21[3:])), f * size)
    # R1 action = reaction
    if not close(w12[:3], -w21[:3], max(f, 1e-300)):
        add(_viol("contact_forces", "action_reaction", cls, dict(ctx, f12=w12[:3], f21=w21[:3])))
    # R2 swap
    try:
        i1, s12, s21, _, _ = call(desc, TA, TB, swap=True)
        n_eval += 1
        if i1 != i0:
            if max(f, float(np.linalg.norm(s12[:3]))) > 1e-12:
                add(_viol("contact_forces", "swap_changes_intersection_flag", cls, ctx))
        elif i0:
            if not (close(s12[:3], w21[:3], f) and close(s21[:3], w12[:3], f)):
                add(_viol("contact_forces", "swap_forces", cls, dict(ctx, w12=w12, w21=w21, swapped12=s12, swapped21=s21)))
            elif not (close(s12[3:], w21[3:], tscale) and close(s21[3:], w12[3:], tscale)):
                add(_viol("contact_forces", "swap_torques", cls, dict(ctx, w12=w12, w21=w21, swapped12=s12, swapped21=s21)))
    except Exception as e:  # noqa
        add(_viol("contact_forces", "exception_swapped:" + type(e).__name__, cls, dict(ctx, exc=repr(e)[:300])))
    # R3 common rigid motion
    for mi, (o, t) in enumerate(MOTIONS):
        if o != 0 and "sphere" in (desc["a"], desc["b"]):
            # RigidBody.make_sphere only takes a centre: the icosphere mesh does not rotate with the scene, so a rotated
            # scene is a different discretisation (not the same contact problem); only translations are comparable
            continue
        G = hydro.rigid(o, t)
        try:
            ig, g12, g21, _, _ = call(desc, hydro.compose(G, TA), hydro.compose(G, TB))
        except Exception as e:  # noqa
            add(_viol("contact_forces", "exception_moved:" + type(e).__name__, cls, dict(ctx, motion=mi, exc=repr(e)[:300])))
            continue
        n_eval += 1
        R = G[:3, :3]
        if ig != i0:
            # a grazing contact (polygons of zero area, zero force) may appear or vanish with rounding
            if max(f, float(np.linalg.norm(g12[:3]))) > 1e-12:
                add(_viol("contact_forces", "motion_changes_intersection_flag", cls, dict(ctx, motion=mi, f12=w12[:3], moved_f12=g12[:3])))
        elif i0 and not (close(g12[:3], R @ w12[:3], f) and close(g21[:3], R @ w21[:3], f)):
            kind = "motion_forces_translation_only" if o == 0 else "motion_forces"
            add(_viol("contact_forces", kind, cls, dict(ctx, motion=mi, f12=w12[:3], moved_f12=g12[:3], expected=R @ w12[:3])))
    # R4 repeat on the same (re-expressed) bodies
    try:
        i2, r12, r21 = hc.contact_forces(a, b)
        n_eval += 1
        if (i2 != i0 and max(f, float(np.linalg.norm(r12[:3]))) > 1e-12) or (i0 and i2 and not (close(r12, w12, max(f, tscale)) and close(r21, w21, max(f, tscale)))):
            add(_viol("contact_forces", "repeat_differs", cls, dict(ctx, first=w12, second=r12)))
    except Exception as e:  # noqa
        add(_viol("contact_forces", "exception_repeat:" + type(e).__name__, cls, dict(ctx, exc=repr(e)[:300])))
    # R5 interleaved histories with a third body c (length <= 3, last call is always (a,b))
    TC = hydro.compose(TB, hydro.rigid(9, (0.3, 0.25, -0.2)))
    for seq in (("ac", "ab"), ("cb", "ab"), ("ab", "ac", "ab"), ("ba", "ab"), ("ca", "cb", "ab"), ("ab", "ab", "ab")):
        a2 = hydro.make_body(desc["a"], TA)
        b2 = hydro.make_body(desc["b"], TB)
        c2 = hydro.make_body("box", TC)
        bodies = {"a": a2, "b": b2, "c": c2}
        try:
            for s in seq:
                res = hc.contact_forces(bodies[s[0]], bodies[s[1]])
                n_eval += 1
            flip = bool(res[0]) != i0 and max(f, float(np.linalg.norm(np.asarray(res[1])[:3]))) > 1e-12     # grazing flips are ignored
            if flip or (i0 and bool(res[0]) and not (close(res[1], w12, max(f, tscale)) and close(res[2], w21, max(f, tscale)))):
                add(_viol("contact_forces", "history_dependent", cls, dict(ctx, sequence=seq, first=w12, after_history=res[1])))
        except Exception as e:  # noqa
            add(_viol("contact_forces", "exception_history:" + type(e).__name__, cls, dict(ctx, sequence=seq, exc=repr(e)[:300])))
    # R6 broad phase variants
    try:
        a3 = hydro.make_body(desc["a"], TA)
        b3 = hydro.make_body(desc["b"], TB)
        cs_b = hc.find_contact_surface(a3, b3, use_aabb_trees=False)
        a4 = hydro.make_body(desc["a"], TA)
        b4 = hydro.make_body(desc["b"], TB)
        cs_t = hc.find_contact_surface(a4, b4, use_aabb_trees=True)
        n_eval += 2
        pb = sorted(zip(map(int, cs_b.intersecting_tetrahedra1), map(int, cs_b.intersecting_tetrahedra2)))
        pt = sorted(zip(map(int, cs_t.intersecting_tetrahedra1), map(int, cs_t.intersecting_tetrahedra2)))
        if pb != pt or bool(cs_b.intersection) != bool(cs_t.intersection):
            add(_viol("find_contact_surface", "tree_broad_phase_differs_from_brute_force", cls, dict(ctx, brute=len(pb), tree=len(pt))))
    except Exception as e:  # noqa
        add(_viol("find_contact_surface", "exception_use_aabb_trees:" + type(e).__name__, "any", dict(ctx, exc=repr(e)[:300])))
    sample = {"desc": desc, "intersection": i0, "wrench12": w12, "wrench21": w21} if (desc["a"] == "box" and desc["b"] == "sphere" and desc["pl"] == 2 and desc["ob"] == 5 and desc["oa"] == 0) else None
    return {"viol": viol, "n_eval": n_eval, "n_trans": n_eval, "traces": n_eval, "nontrivial_n": 1 if (i0 and desc["ob"] != 0) else 0,
            "hist": {"contact": {str(i0): 1}, "rotation_body2": {rot2: 1}}, "sample": sample}
