"""C16 - hydroelastic contact forces obey action-reaction, symmetry and frame invariance.

Transition relations on body-pair scenes (6 x 6 factories, contact placements, general rotations of BOTH bodies):
  R1  f12 = -f21
  R2  swapping the bodies swaps the two wrenches
  R3  moving both bodies by one rigid motion g rotates both forces by g (same intersection flag)
  R4  repeating the call on the same (internally re-expressed) bodies reproduces the result
  R5  interleaving calls with a third body does not change the result (all call sequences of length <= 3)
  R6  use_aabb_trees=True yields exactly the brute-force set of intersecting tetrahedron pairs
each within 5 % of the force magnitude.
"""
import itertools

import numpy as np

from .. import hydro
from .. import scenes as sc
from . import c15

PROPERTY = "C16"
TECHNIQUE = ("bounded-exhaustive enumeration of body-pair scenes x transition relations (swap, common rigid motion, repeat, "
             "interleaved call histories of length <= 3, broad-phase variant) on the real contact_forces / find_contact_surface")
RULE = ("state = (factory pair, placement, orientation of body 1 and of body 2); transitions = swap, 5 common rigid motions, repeat, "
        "6 interleaved call sequences with a third body, tree broad phase; non-trivial = state with contact and a non-identity "
        "rotation of body 2; distinct = distinct state")
ASSUMPTIONS = ["tolerance 5% of the force magnitude (discretisation noise of the model)", "forces are compared as 3-vectors; torques (about the bodies' centres of mass) only for swap/repeat"]
CHUNK = 4
STATE_TIMEOUT = 600.0

PLACEMENTS = [0, 1, 2, 3]    # indices into c15.BODY_PLACEMENTS: stack small, stack deep, offset, side
ORI_A = [0, 24]
ORI_B = [0, 5, 24, 26]
MOTIONS = [(5, (0.0, 0.0, 0.0)), (0, (1.0, 2.0, 3.0)), (25, (0.3, -0.2, 0.4)), (13, (100.0, 50.0, -20.0)), (27, (-1.0, 0.5, 0.25))]
REL = 0.05


def warmup():
    c15.warmup()


def enumerate_states(tier, seed):
    states = []
    ori_a = [0, 24, 5, 26, 28, 13] if tier == "thorough" else ORI_A
    ori_b = [0, 5, 24, 26, 25, 27, 28, 31, 13, 7] if tier == "thorough" else ORI_B
    for fa, fb in itertools.product(hydro.FACTORIES, hydro.FACTORIES):
        for pl in (PLACEMENTS + [5] if tier == "thorough" else PLACEMENTS):
            for oa in ori_a:
                for ob in (ori_b if tier == "thorough" else ORI_B[:3] if (pl in (0, 2)) else ORI_B[:2]):
                    states.append({"a": fa, "b": fb, "pl": pl, "oa": oa, "ob": ob})
    return states, {"bound_completed": "36 factory pairs x %s placements x %d orientations of body 1 x %s orientations of body 2, each with "
                                       "swap, 5 rigid motions, repeat, 6 interleaved sequences and the tree broad phase"
                                       % (("5 (4 contact + touching)", 6, "10") if tier == "thorough" else ("4 contact", 2, "2-3")), "exhaustive": True}


def _viol(entry, kind, cls, detail):
    return {"kind": kind, "entry": entry, "sig": "%s:%s:%s" % (entry, kind, cls), "detail": detail}


def poses(desc):
    d15 = {"a": desc["a"], "b": desc["b"], "pl": desc["pl"], "ob": desc["ob"], "g": 0}
    TA, TB, pl = c15.body_poses(d15)
    # rotate body A in place (about its own centre) as well
    RA = np.eye(4)
    RA[:3, :3] = sc.ROTS[desc["oa"]]
    return hydro.compose(TA, RA), TB, pl


def call(desc, TA, TB, swap=False):
    from distance3d import hydroelastic_contact as hc
    a = hydro.make_body(desc["a"], TA)
    b = hydro.make_body(desc["b"], TB)
    if swap:
        i, w12, w21 = hc.contact_forces(b, a)
    else:
        i, w12, w21 = hc.contact_forces(a, b)
    return bool(i), np.asarray(w12, dtype=float), np.asarray(w21, dtype=float), a, b


def close(x, y, scale):
    return float(np.linalg.norm(np.asarray(x) - np.asarray(y))) <= REL * scale


def run_state(desc):
    from distance3d import hydroelastic_contact as hc
    TA, TB, pl = poses(desc)
    rot2 = "identity_rot2" if desc["ob"] == 0 else "rotated_body2"
    cls = "%s-%s:%s" % (desc["a"], desc["b"], rot2)
    viol, seen = [], set()

    def add(v):
        if v["sig"] not in seen:
            seen.add(v["sig"])
            viol.append(v)
    ctx = {"desc": desc}
    try:
        i0, w12, w21, a, b = call(desc, TA, TB)
    except Exception as e:  # noqa
        return {"viol": [_viol("contact_forces", "exception:" + type(e).__name__, cls, dict(ctx, exc=repr(e)[:300]))], "n_eval": 1}
    n_eval = 1
    if not (np.all(np.isfinite(w12)) and np.all(np.isfinite(w21))):
        return {"viol": [_viol("contact_forces", "nonfinite", cls, dict(ctx, w12=w12, w21=w21))], "n_eval": 1}
    f = float(np.linalg.norm(w12[:3]))
    size = 1.0
    tscale = max(float(np.linalg.norm(w12[3:])), float(np.linalg.norm(w21[3:])), f * size)
    # R1 action = reaction
    if not close(w12[:3], -w21[:3], max(f, 1e-300)):
        add(_viol("contact_forces", "action_reaction", cls, dict(ctx, f12=w12[:3], f21=w21[:3])))
    # R2 swap
    try:
        i1, s12, s21, _, _ = call(desc, TA, TB, swap=True)
        n_eval += 1
        if i1 != i0:
            if max(f, float(np.linalg.norm(s12[:3]))) > 1e-12:
                add(_viol("contact_forces", "swap_changes_intersection_flag", cls, ctx))
        elif i0:
            if not (close(s12[:3], w21[:3], f) and close(s21[:3], w12[:3], f)):
                add(_viol("contact_forces", "swap_forces", cls, dict(ctx, w12=w12, w21=w21, swapped12=s12, swapped21=s21)))
            elif not (close(s12[3:], w21[3:], tscale) and close(s21[3:], w12[3:], tscale)):
                add(_viol("contact_forces", "swap_torques", cls, dict(ctx, w12=w12, w21=w21, swapped12=s12, swapped21=s21)))
    except Exception as e:  # noqa
        add(_viol("contact_forces", "exception_swapped:" + type(e).__name__, cls, dict(ctx, exc=repr(e)[:300])))
    # R3 common rigid motion
    for mi, (o, t) in enumerate(MOTIONS):
        if o != 0 and "sphere" in (desc["a"], desc["b"]):
            # RigidBody.make_sphere only takes a centre: the icosphere mesh does not rotate with the scene, so a rotated
            # scene is a different discretisation (not the same contact problem); only translations are comparable
            continue
        G = hydro.rigid(o, t)
        try:
            ig, g12, g21, _, _ = call(desc, hydro.compose(G, TA), hydro.compose(G, TB))
        except Exception as e:  # noqa
            add(_viol("contact_forces", "exception_moved:" + type(e).__name__, cls, dict(ctx, motion=mi, exc=repr(e)[:300])))
            continue
        n_eval += 1
        R = G[:3, :3]
        if ig != i0:
            # a grazing contact (polygons of zero area, zero force) may appear or vanish with rounding
            if max(f, float(np.linalg.norm(g12[:3]))) > 1e-12:
                add(_viol("contact_forces", "motion_changes_intersection_flag", cls, dict(ctx, motion=mi, f12=w12[:3], moved_f12=g12[:3])))
        elif i0 and not (close(g12[:3], R @ w12[:3], f) and close(g21[:3], R @ w21[:3], f)):
            kind = "motion_forces_translation_only" if o == 0 else "motion_forces"
            add(_viol("contact_forces", kind, cls, dict(ctx, motion=mi, f12=w12[:3], moved_f12=g12[:3], expected=R @ w12[:3])))
    # R4 repeat on the same (re-expressed) bodies
    try:
        i2, r12, r21 = hc.contact_forces(a, b)
        n_eval += 1
        if i2 != i0 or (i0 and not (close(r12, w12, max(f, tscale)) and close(r21, w21, max(f, tscale)))):
            add(_viol("contact_forces", "repeat_differs", cls, dict(ctx, first=w12, second=r12)))
    except Exception as e:  # noqa
        add(_viol("contact_forces", "exception_repeat:" + type(e).__name__, cls, dict(ctx, exc=repr(e)[:300])))
    # R5 interleaved histories with a third body c (length <= 3, last call is always (a,b))
    TC = hydro.compose(TB, hydro.rigid(9, (0.3, 0.25, -0.2)))
    for seq in (("ac", "ab"), ("cb", "ab"), ("ab", "ac", "ab"), ("ba", "ab"), ("ca", "cb", "ab"), ("ab", "ab", "ab")):
        a2 = hydro.make_body(desc["a"], TA)
        b2 = hydro.make_body(desc["b"], TB)
        c2 = hydro.make_body("box", TC)
        bodies = {"a": a2, "b": b2, "c": c2}
        try:
            for s in seq:
                res = hc.contact_forces(bodies[s[0]], bodies[s[1]])
                n_eval += 1
            if bool(res[0]) != i0 or (i0 and not (close(res[1], w12, max(f, tscale)) and close(res[2], w21, max(f, tscale)))):
                add(_viol("contact_forces", "history_dependent", cls, dict(ctx, sequence=seq, first=w12, after_history=res[1])))
        except Exception as e:  # noqa
            add(_viol("contact_forces", "exception_history:" + type(e).__name__, cls, dict(ctx, sequence=seq, exc=repr(e)[:300])))
    # R6 broad phase variants
    try:
        a3 = hydro.make_body(desc["a"], TA)
        b3 = hydro.make_body(desc["b"], TB)
        cs_b = hc.find_contact_surface(a3, b3, use_aabb_trees=False)
        a4 = hydro.make_body(desc["a"], TA)
        b4 = hydro.make_body(desc["b"], TB)
        cs_t = hc.find_contact_surface(a4, b4, use_aabb_trees=True)
        n_eval += 2
        pb = sorted(zip(map(int, cs_b.intersecting_tetrahedra1), map(int, cs_b.intersecting_tetrahedra2)))
        pt = sorted(zip(map(int, cs_t.intersecting_tetrahedra1), map(int, cs_t.intersecting_tetrahedra2)))
        if pb != pt or bool(cs_b.intersection) != bool(cs_t.intersection):
            add(_viol("find_contact_surface", "tree_broad_phase_differs_from_brute_force", cls, dict(ctx, brute=len(pb), tree=len(pt))))
    except Exception as e:  # noqa
        add(_viol("find_contact_surface", "exception_use_aabb_trees:" + type(e).__name__, "any", dict(ctx, exc=repr(e)[:300])))
    sample = {"desc": desc, "intersection": i0, "wrench12": w12, "wrench21": w21} if (desc["a"] == "box" and desc["b"] == "sphere" and desc["pl"] == 2 and desc["ob"] == 5 and desc["oa"] == 0) else None
    return {"viol": viol, "n_eval": n_eval, "n_trans": n_eval, "traces": n_eval, "nontrivial_n": 1 if (i0 and desc["ob"] != 0) else 0,
            "hist": {"contact": {str(i0): 1}, "rotation_body2": {rot2: 1}}, "sample": sample}
