"""C11 - primitive distance functions return the global minimum distance.

Same enumeration as C10.  Convex pairs: separating-plane certificate along the returned direction, projected onto
the directions of finite support for lines and planes (necessary and sufficient).  Circle functions: certified
global minimum by Lipschitz branch-and-bound over the circle angle.  Ellipsoid surface: witness search on a
1-degree surface grid with local refinement (sound for alarms; resolution-limited for silence).
"""
from . import c10 as _c10
from .c10 import warmup, enumerate_states, evaluate_pair  # noqa: F401
from .. import primscenes as ps

PROPERTY = "C11"
TECHNIQUE = ("exhaustive enumeration of the product of two primitive alphabets for each of the 34 functions on the real code; "
             "optimality decided by separating-plane certificates (convex pairs) and Lipschitz branch-and-bound over the circle "
             "angle (circle functions)")
RULE = _c10.RULE
ASSUMPTIONS = ["support values of mc/refmodel/prims.py", "tolerance 1e-6*L (5e-3*L for line_to_circle)",
               "no alphabet member lies inside a documented epsilon band (direction cosines in (0, 1e-2))"]
CHUNK = 8
STATE_TIMEOUT = 120.0


def run_state(desc):
    old = _c10.OWN
    _c10.OWN = "C11"
    try:
        return _c10.run_state(desc)
    finally:
        _c10.OWN = old
