"""C14 - a collider after update_pose behaves like a freshly built one at that pose.

History exploration: for every collider type that implements update_pose (x two
sizes x Margin), all sequences of 1..3 update_pose calls over 6 poses x 2 array
representations (fresh array / one matrix out of a pose stack), with the query
battery run after every step (mode 'each') or only at the end (mode 'end').
Relation: every observation equals that of a new collider constructed directly
at the last pose; no query raises.
"""
import itertools

import numpy as np

from .. import scenes as sc

PROPERTY = "C14"
TECHNIQUE = ("explicit enumeration of all update_pose/query histories up to depth 3 on the real colliders, compared "
             "observation by observation with a freshly constructed collider (differential oracle) and the reference model")
RULE = ("state = (type,size,margin) x history of <=3 update_pose calls (8 poses (two of them within numpy.allclose tolerance of another) x {fresh array, item of a pose stack, caller-owned buffer overwritten in place}) x query "
        "schedule {after each step, only at the end}; transition = one update_pose or one battery of 14 support queries, aabb, "
        "center, first_vertex, collider2origin, gjk distance + intersection against 2 partners; non-trivial = history with "
        ">= 2 updates to different poses; distinct = distinct (object, history, schedule)")
ASSUMPTIONS = ["a freshly constructed collider at the same pose is the reference (its own correctness is C03/C04)",
               "poses are C-contiguous float64 4x4 arrays (fresh or stack[i])"]
CHUNK = 6
STATE_TIMEOUT = 300.0

POSES = [(0, 0), (5, 3), (24, 3), (26, 1), (28, 2), (13, 0), "near1", "near3"]
TYPES = [t for t in sc.TYPES if t != "hull"]
SIZES_USED = {t: [0, 3] for t in TYPES}
SIZES_USED["mesh"] = [0, 6, 7]     # 7 = mesh whose vertex 0 is referenced by no triangle
NMODES = 3   # fresh array, item of a pose stack, one caller-owned buffer overwritten in place and passed again
QDIRS = [0, 1, 2, 3, 4, 5, 6, 9, 14, 20, 26, 27, 28, 29]


def _pose_of(p):
    if isinstance(p, str):
        # a pose that differs from pose 1 / pose 3 by less than numpy.allclose's default tolerances
        # (small increments of a moving robot): tiny rotation and translation
        base = POSES[int(p[-1])]
        T = sc.pose(base[0], sc.OFFSETS[base[1]])
        T = T.copy()
        if p == "near1":      # pure micro-translation at ~0.5 from the origin
            T[:3, 3] += [3e-6, -2e-6, 1e-6]
        else:                 # 1 mm step 1000 units from the origin plus a 5e-10 rad rotation
            T[:3, :3] = sc._axis_angle([0.3, -1.0, 0.2], 5e-10) @ T[:3, :3]
            T[:3, 3] += [1e-3, 0.0, 2e-4]
        return np.ascontiguousarray(T)
    return sc.pose(p[0], sc.OFFSETS[p[1]])


def _pose_arrays():
    stack = np.ascontiguousarray(np.stack([_pose_of(p) for p in POSES]))
    return stack


def warmup():
    from distance3d import gjk
    for t in TYPES:
        c, _ = sc.build(t, 0, 0, np.zeros(3))
        c.update_pose(sc.pose(1, np.ones(3)))
        p, _ = sc.build("box", 0, 0, np.array([2.0, 0.3, 0.1]))
        gjk.gjk(c, p)
        gjk.gjk_intersection(c, p)


def enumerate_states(tier, seed):
    states = []
    depth = 3
    for t in TYPES:
        for s in SIZES_USED[t]:
            for m in (0, 1):
                for first in range(len(POSES) * NMODES):
                    states.append({"t": t, "s": s, "m": m, "first": first, "depth": depth if tier == "thorough" or m == 0 else 2,
                                   **({"full3": 1} if tier == "thorough" and m == 0 else {})})
    meta = {"bound_completed": "all update histories of length <= 2 over 24 update actions and of length 3 over %s (Margin: length <= %d), both query schedules" %
                               (("the full alphabet of 24 (Margin: reduced alphabet of 7)", 3) if tier == "thorough" else ("a reduced alphabet of 7", 2)), "exhaustive": True}
    return states, meta


def _viol(kind, cls, detail):
    return {"kind": kind, "entry": "update_pose", "sig": "update_pose:%s:%s" % (kind, cls), "detail": detail}


def _partners():
    a, _ = sc.build("box", 0, 25, np.array([1.6, 0.4, -0.2]))
    b, _ = sc.build("sphere", 0, 0, np.array([-0.3, 0.2, 0.4]))
    return [a, b]


def battery(col, is_mesh, partners):
    from distance3d import gjk
    obs = {}
    # first_vertex and the algorithms that start from it are queried BEFORE any support query (lazy caches)
    obs["first_vertex"] = np.asarray(col.first_vertex(), dtype=float).copy()
    for i, p in enumerate(partners):
        obs["libccd%d" % i] = bool(gjk.gjk_intersection_libccd(col, p))
        obs["orig%d" % i] = float(gjk.gjk_distance_original(col, p)[0])
    for di in QDIRS:
        d = np.ascontiguousarray(sc.DIRS[di])
        p = np.asarray(col.support_function(d), dtype=float)
        obs["sup%d" % di] = float(p @ d) if is_mesh else p.copy()
    obs["aabb"] = np.asarray(col.aabb(), dtype=float).copy()
    obs["center"] = np.asarray(col.center(), dtype=float).copy()
    obs["c2o"] = np.asarray(col.collider2origin(), dtype=float).copy()
    for i, p in enumerate(partners):
        obs["gjk%d" % i] = float(gjk.gjk(col, p)[0])
        obs["int%d" % i] = bool(gjk.gjk_intersection(col, p))
    return obs


def compare(o1, o2, L):
    for k in o2:
        a, b = o1.get(k), o2[k]
        if isinstance(b, bool):
            if a != b:
                return k
        elif k.startswith("gjk") or k.startswith("orig"):
            if not abs(a - b) <= (1e-7 if k.startswith("gjk") else 1e-5) * L:
                return k
        else:
            if not np.allclose(a, b, rtol=0, atol=1e-11 * L):
                return k
    return None


def run_state(desc):
    t, s, m = desc["t"], desc["s"], desc["m"]
    depth = desc["depth"]
    stack = _pose_arrays()
    nact = len(POSES) * NMODES
    mv = sc.margin_value(t, s, m)
    is_mesh = t == "mesh"
    partners = _partners()
    cls = "%s%s" % (t, "+margin" if m else "")
    viol, n_eval, n_trans, nontrivial = [], 0, 0, 0
    fresh_cache = {}
    L = max(1.0, 1e3)

    sib_cache = {}

    def sib_obs():
        if "o" not in sib_cache:
            c, _ = sc.build(t, s, 3, sc.OFFSETS[3], mv, want_ref=False)
            sib_cache["o"] = battery(c, is_mesh, partners)
        return sib_cache["o"]

    def build_sharing(t_, s_, mv_):
        """Two colliders constructed from the very same argument arrays (as user code with shared parameters does)."""
        from distance3d import colliders as C
        T = sc.pose(3, sc.OFFSETS[3])
        sz = sc.SIZES[t_][s_]
        if t_ == "sphere":
            c0 = np.ascontiguousarray(T[:3, 3].copy())
            a, b = C.Sphere(c0, float(sz)), C.Sphere(c0, float(sz))
        elif t_ == "disk":
            c0, n0 = np.ascontiguousarray(T[:3, 3].copy()), np.ascontiguousarray(T[:3, 2].copy())
            a, b = C.Disk(c0, float(sz), n0), C.Disk(c0, float(sz), n0)
        elif t_ == "ellipse":
            c0, ax, rr = np.ascontiguousarray(T[:3, 3].copy()), np.ascontiguousarray(T[:3, :2].T.copy()), np.array(sz, dtype=float)
            a, b = C.Ellipse(c0, ax, rr), C.Ellipse(c0, ax, rr)
        elif t_ == "ellipsoid":
            rr = np.array(sz, dtype=float)
            a, b = C.Ellipsoid(T, rr), C.Ellipsoid(T, rr)
        elif t_ == "capsule":
            a, b = C.Capsule(T, float(sz[0]), float(sz[1])), C.Capsule(T, float(sz[0]), float(sz[1]))
        elif t_ == "cylinder":
            a, b = C.Cylinder(T, float(sz[0]), float(sz[1])), C.Cylinder(T, float(sz[0]), float(sz[1]))
        elif t_ == "cone":
            a, b = C.Cone(T, float(sz[0]), float(sz[1])), C.Cone(T, float(sz[0]), float(sz[1]))
        elif t_ == "box":
            ss = np.array(sz, dtype=float)
            a, b = C.Box(T, ss), C.Box(T, ss)
        elif t_ == "mesh":
            v, tri = sc.mesh_data(sz[0])
            vv = np.ascontiguousarray(v * sz[1])
            a, b = C.MeshGraph(T, vv, tri), C.MeshGraph(T, vv, tri)
        else:
            return sc.build(t_, s_, 3, sc.OFFSETS[3], mv_, want_ref=False)[0], None
        if mv_:
            a, b = C.Margin(a, float(mv_)), C.Margin(b, float(mv_))
        return a, b

    def fresh_obs(pi):
        if pi not in fresh_cache:
            c, _ = sc.build_explicit(t, sc.SIZES[t][s], stack[pi].copy(), mv, want_ref=False)
            fresh_cache[pi] = battery(c, is_mesh, partners)
        return fresh_cache[pi]

    buf = [None]

    def arr(action):
        pi, mode = action % len(POSES), action // len(POSES)
        if mode == 0:
            return pi, np.array(stack[pi], dtype=float, order="C")
        if mode == 2:
            if buf[0] is None:
                buf[0] = np.array(stack[pi], dtype=float, order="C")
            else:
                buf[0][:, :] = stack[pi]
            return pi, buf[0]
        return pi, stack[pi]

    # all histories of length <= 2 over the full action alphabet; length 3 over a reduced alphabet
    # (fresh/stack/in-place representations, two ordinary poses and the two near-duplicate poses)
    np_ = len(POSES)
    reduced = [0, 1, 6, np_ + 1, np_ + 4, 2 * np_ + 3, 2 * np_ + 7]
    seqs = [(desc["first"],)]
    if depth >= 2:
        seqs += [(desc["first"], x) for x in range(nact)]
    if depth >= 3:
        third = list(range(nact)) if desc.get("full3") else reduced
        seqs += [(desc["first"], x, y) for x in third for y in third]
    sigs = set()
    for seq in seqs:
        for schedule in ("each", "end"):
            col, sib = build_sharing(t, s, mv)
            buf[0] = None
            ok = True
            for step, action in enumerate(seq):
                pi, P = arr(action)
                n_trans += 1
                try:
                    col.update_pose(P)
                except Exception as e:  # noqa
                    v = _viol("update_exception:" + type(e).__name__, cls, {"history": list(seq), "step": step, "exc": repr(e)[:200]})
                    if v["sig"] not in sigs:
                        sigs.add(v["sig"])
                        viol.append(v)
                    ok = False
                    break
                if schedule == "each" or step == len(seq) - 1:
                    n_eval += 1
                    try:
                        got = battery(col, is_mesh, partners)
                    except Exception as e:  # noqa
                        mode = ("fresh_array", "stack_item", "inplace_buffer")[action // len(POSES)]
                        v = _viol("query_exception:" + type(e).__name__, cls + ":" + mode,
                                  {"history": list(seq), "step": step, "schedule": schedule, "exc": repr(e)[:200]})
                        if v["sig"] not in sigs:
                            sigs.add(v["sig"])
                            viol.append(v)
                        ok = False
                        break
                    bad = compare(got, fresh_obs(pi), L)
                    if bad is not None:
                        v = _viol("differs_from_fresh:" + ("sup" if bad.startswith("sup") else bad), cls,
                                  {"history": list(seq), "step": step, "schedule": schedule, "observation": bad,
                                   "got": got[bad], "fresh": fresh_obs(pi)[bad]})
                        if v["sig"] not in sigs:
                            sigs.add(v["sig"])
                            viol.append(v)
                        ok = False
                        break
            if ok and sib is not None and schedule == "end":
                # a second collider built from the SAME constructor arrays must not be affected by the updates
                try:
                    bad = compare(battery(sib, is_mesh, partners), sib_obs(), L)
                except Exception as e:  # noqa
                    bad = "exception:" + type(e).__name__
                if bad is not None:
                    v = _viol("sibling_sharing_constructor_arrays_changed:" + ("sup" if bad.startswith("sup") else bad), cls, {"history": list(seq), "observation": bad})
                    if v["sig"] not in sigs:
                        sigs.add(v["sig"])
                        viol.append(v)
            if not ok:
                continue
        if len(seq) >= 2 and len(set(a % len(POSES) for a in seq)) >= 2:
            nontrivial += 1
    # 'probe' schedule: the very FIRST query after the last update is one support query (a cache that is reset by update_pose is
    # only visible to the first query; the battery always starts with the same one).  Histories of length <= 2, 8 probe
    # directions given in the collider's own frame (body diagonals and axes), compared with a fresh collider's support value.
    probes = [np.array(v, dtype=float) / np.linalg.norm(v) for v in
              ((1, 1, 1), (-1, -1, -1), (1, -1, 1), (-1, 1, 1), (1, 1, -1), (0, 0, 1), (1, 0, 0), (1, 2, 3))]
    for seq in [q for q in seqs if len(q) <= 2]:
        for k, d_local in enumerate(probes):
            col, _sib = build_sharing(t, s, mv)
            buf[0] = None
            try:
                for action in seq:
                    pi, P = arr(action)
                    col.update_pose(P)
                d = np.ascontiguousarray(stack[pi][:3, :3] @ d_local)
                n_eval += 1
                n_trans += 1
                got = float(np.asarray(col.support_function(d), dtype=float) @ d)
                key = ("probe", pi, k)
                if key not in fresh_cache:
                    c, _ = sc.build_explicit(t, sc.SIZES[t][s], stack[pi].copy(), mv, want_ref=False)
                    fresh_cache[key] = float(np.asarray(c.support_function(d), dtype=float) @ d)
                if not abs(got - fresh_cache[key]) <= 1e-11 * L:
                    v = _viol("differs_from_fresh:first_query_after_update", cls, {"history": list(seq), "probe_direction_local": d_local,
                                                                                  "got": got, "fresh": fresh_cache[key]})
                    if v["sig"] not in sigs:
                        sigs.add(v["sig"])
                        viol.append(v)
            except Exception as e:  # noqa
                v = _viol("query_exception:" + type(e).__name__, cls + ":first_query_after_update",
                          {"history": list(seq), "probe_direction_local": d_local, "exc": repr(e)[:200]})
                if v["sig"] not in sigs:
                    sigs.add(v["sig"])
                    viol.append(v)
    # the pose stack must not have been modified by the collider
    if not np.array_equal(stack, _pose_arrays()):
        viol.append(_viol("pose_array_mutated", cls, {}))
    return {"viol": viol, "n_eval": n_eval, "n_trans": n_trans, "traces": n_eval, "nontrivial_n": nontrivial,
            "hist": {"type": {cls: len(seqs)}},
            "sample": {"desc": desc, "history_example": list(seqs[-1]), "poses": POSES} if desc["first"] == 7 and m == 0 and s == 0 else None}
