"""C10 - primitive distance functions return points on their primitives, consistently.
(shares its enumeration and pair evaluation with C11; C10 owns: no exception / finite / d >= 0 /
points are members of their primitives (1e-9*L) / |p1-p2| = d (1e-6*L) / d = 0 => common point.)
"""
import numpy as np

from .. import instr
from .. import primscenes as ps
from ..bootstrap import tier as bootstrap_tier
from ..refmodel import prims as rp

PROPERTY = "C10"
TECHNIQUE = ("exhaustive enumeration of the product of two primitive alphabets (lattice-built: exactly parallel, perpendicular, "
             "coplanar, touching, contained, coincident placements) for each of the 34 functions on the real code vs exact "
             "point-to-primitive distances of the reference model")
RULE = ("state = (function, index of first primitive); transitions = all second primitives of the alphabet (full product); "
        "non-trivial = pair whose true configuration is degenerate (distance 0 or a parallel/perpendicular/contained pair: "
        "measured as reported distance <= tol or closest direction aligned with a primitive axis); distinct = distinct (function, pair)")
ASSUMPTIONS = ["exact membership distances of mc/refmodel/prims.py", "tolerances 1e-9*L (membership), 1e-6*L (consistency), L = max(1, sizes, centre distances)",
               "primitive domain P, default epsilon arguments"]
CHUNK = 8
STATE_TIMEOUT = 120.0
OWN = "C10"


def warmup():
    import distance3d.distance  # noqa
    if bootstrap_tier() == "thorough":
        ps.enumerate_states(thorough=True)     # extends the shift table before the workers fork
    for name in ps.all_names():
        ka, kb = ps.FUNCS.get(name, ps.VARIANTS.get(name))
        try:
            ps.call(name, ps.alph(ka)[0], ps.alph(kb)[1])
        except Exception:  # noqa
            pass


def enumerate_states(tier, seed):
    states = ps.enumerate_states(thorough=(tier == "thorough"))
    n_pairs = sum(len(ps.alph(ps.FUNCS.get(n, ps.VARIANTS.get(n))[0])) * len(ps.alph(ps.FUNCS.get(n, ps.VARIANTS.get(n))[1])) for n in ps.all_names())
    return states, {"bound_completed": "full product of the two primitive alphabets for all 34 functions (+ point_to_ellipsoid surface variant): %d pairs; for the 14 polygon/box functions additionally 11 translated copies of the second primitive" % n_pairs,
                    "exhaustive": True}


def _viol(prop, entry, kind, detail):
    return {"prop": prop, "kind": kind, "entry": entry, "sig": "%s:%s" % (entry, kind), "detail": detail}


def evaluate_pair(name, A, B):
    """Returns (list of violations tagged with the owning property, info dict)."""
    out = []
    L = ps.scale_L(A, B)
    t_mem, t_con = 1e-9 * L, 1e-6 * L
    t_opt = (5e-3 if name == "line_to_circle" else 1e-6) * L
    try:
        d, p1, p2 = ps.call(name, A, B)
    except Exception as e:  # noqa
        out.append(_viol("C10", name, "exception:" + type(e).__name__, {"exc": repr(e)[:200]}))
        return out, {}
    if not (instr.finite(d) and instr.finite(p1) and instr.finite(p2)) or p1 is None or p2 is None:
        out.append(_viol("C10", name, "nonfinite", {"d": d, "p1": p1, "p2": p2}))
        return out, {}
    d = float(d)
    p1 = np.asarray(p1, dtype=float)
    p2 = np.asarray(p2, dtype=float)
    if d < 0:
        out.append(_viol("C10", name, "negative", {"d": d}))
    surface = name == "point_to_ellipsoid_surface"
    m1 = A.dist(p1)
    m2 = B.on_surface(p2) if surface else B.dist(p2)
    if m1 > t_mem:
        out.append(_viol("C10", name, "point1_not_on_primitive", {"p1": p1, "off": m1, "tol": t_mem}))
    if m2 > t_mem:
        out.append(_viol("C10", name, "point2_not_on_primitive", {"p2": p2, "off": m2, "tol": t_mem}))
    sep = float(np.linalg.norm(p1 - p2))
    if abs(sep - d) > t_con:
        out.append(_viol("C10", name, "inconsistent", {"d": d, "|p1-p2|": sep, "tol": t_con}))
    # ---- optimality (C11)
    if A.convex and B.convex and not surface:
        c = rp.certify(A, B, p1, p2, d, t_opt) if sep > 0 else None
        if c is not None and m1 <= t_mem and m2 <= t_mem and abs(sep - d) <= t_con:
            out.append(_viol("C11", name, "not_minimal", dict(c, tol=t_opt)))
        elif c is not None:
            out.append(_viol("C11", name, "not_minimal_and_infeasible", dict(c, tol=t_opt)))
    elif surface:
        ub = B.surface_dist_ub(p1)
        if d > ub + t_opt:
            out.append(_viol("C11", name, "not_minimal", {"d": d, "witness_distance": ub, "tol": t_opt}))
    else:
        # circle: certified global minimum by Lipschitz branch-and-bound over the angle
        if A.kind == "point":
            best = B.dist(A.p)
            if d > best + t_opt:
                out.append(_viol("C11", name, "not_minimal", {"d": d, "global_minimum": best, "tol": t_opt}))
        else:
            verdict, th, val = rp.exists_closer(lambda t: A.dist_many(B.points(t)), 0.0, 2 * np.pi, B.r, d - t_opt)
            info_bb = verdict
            if verdict == "witness":
                out.append(_viol("C11", name, "not_minimal", {"d": d, "closer_circle_angle": th, "distance_there": val, "tol": t_opt}))
            elif verdict == "cap":
                out.append(_viol("C11", name, "UNDECIDED_cap", {"d": d}))
    # violations in the three functions with a recorded, unrepaired defect: tag the signature with the recognised symptom
    # (or leave it untagged, i.e. unknown, when the result is not what the recorded procedure yields)
    if out and name in ("line_segment_to_circle", "disk_to_disk", "point_to_ellipsoid_surface"):
        from .. import symptoms
        sym = symptoms.known_symptom(name, A, B, d, p1, p2, L)
        if sym:
            for v in out:
                if (v["kind"], name) in (("not_minimal", "line_segment_to_circle"), ("not_minimal", "disk_to_disk"),
                                         ("point2_not_on_primitive", "point_to_ellipsoid_surface")):
                    v["sig"] = v["sig"] + ":" + sym
    return out, {"d": d, "degenerate": d <= t_con}


def run_state(desc):
    name = desc["fn"]
    ka, kb = ps.FUNCS.get(name, ps.VARIANTS.get(name))
    A = ps.alph(ka)[desc["i"]]
    viol, n_eval, nontriv, undecided = [], 0, 0, 0
    seen = {}
    shift = desc.get("shift", 0)
    for j, B0 in enumerate(ps.alph(kb)):
        B = ps.shifted(B0, shift)
        vs, info = evaluate_pair(name, A, B)
        n_eval += 1
        if info.get("degenerate"):
            nontriv += 1
        for v in vs:
            if v["kind"] == "UNDECIDED_cap":
                undecided += 1
                continue
            if v["prop"] != OWN:
                continue
            v = dict(v)
            v.pop("prop")
            v["detail"] = dict(v["detail"], i=desc["i"], j=j, shift=shift)
            v["dsig"] = "%s@i=%d,j=%d" % (v["sig"], desc["i"], j) + ("" if shift == 0 else ",shift=%d" % shift)
            if seen.get(v["sig"], 0) < 4:
                seen[v["sig"]] = seen.get(v["sig"], 0) + 1
                viol.append(v)
    sample = None
    if desc["i"] == 3 and shift == 0:
        B = ps.alph(kb)[2]
        try:
            r = ps.call(name, A, B)
            sample = {"function": name, "first": [a for a in A.args()], "second": [b for b in B.args()], "result": r}
        except Exception:  # noqa
            pass
    return {"viol": viol, "n_eval": n_eval, "n_trans": n_eval, "traces": n_eval, "nontrivial_n": nontriv,
            "hist": {"function": {name: n_eval}, "undecided_search_cap": {name: undecided}}, "sample": sample}
