"""C19 - narrow-phase queries terminate within 1000 support evaluations with finite results.

Bounded liveness: every entry point (gjk.gjk, gjk_intersection, jolt iteration helper, gjk_distance_original,
libccd, Nesterov +-acceleration, Nesterov-primitives +-acceleration, mpr_intersection, mpr_penetration, epa) is
run on a degenerate family: all (type,size) x (type,size) ordered pairs including needles and plates of aspect 1e4,
zero-volume hulls (single vertex, segment, planar quad), disks and ellipses, in lattice placements (coincident,
exactly touching, half overlapping, apart, diagonal, same object twice) and a few orientation pairs.
Support evaluations are counted by instance-level wrappers (budget 1000 => violation), a per-state watchdog
catches compiled loops, every output must be finite (MAX_FLOAT clip excepted); the only tolerated exception
is epa's capacity assertion.
"""
import itertools

import numpy as np

from .. import instr
from .. import scenes as sc

PROPERTY = "C19"
TECHNIQUE = ("bounded-exhaustive enumeration of a degenerate-geometry lattice on all real narrow-phase entry points under a "
             "support-evaluation budget (counted through instance wrappers) and a per-state watchdog in a fork sandbox")
RULE = ("state = ((typeA,sizeA),(typeB,sizeB), placement, orientation pair); transitions = one run of each applicable entry "
        "point (9-13 per state); violation = more than 1000 support evaluations, watchdog timeout, non-finite output or any "
        "exception other than epa's capacity assertion; non-trivial = state involving a needle/plate/zero-volume/flat collider "
        "or a coincident/touching/same-object placement; distinct = distinct state")
ASSUMPTIONS = ["bounded liveness only: no explored input needs more than 1000 support evaluations",
               "compiled loops are covered by the 60 s per-state watchdog of the sandbox"]
CHUNK = 40
STATE_TIMEOUT = 60.0
BUDGET = 1000

EXTRA = {
    "ellipsoid": [(100.0, 0.01, 0.01), (100.0, 100.0, 0.01)],
    "capsule": [(0.01, 100.0)],
    "cylinder": [(0.01, 100.0), (100.0, 0.01)],
    "cone": [(0.01, 100.0), (100.0, 0.01)],
    "box": [(100.0, 0.01, 0.01), (100.0, 100.0, 0.01)],
    "ellipse": [(100.0, 0.01)],
}
ZERO_HULLS = {
    "vertex": np.array([[0.3, -0.2, 0.1]]),
    "segment": np.array([[-0.5, 0.0, 0.0], [0.5, 0.0, 0.0]]),
    "planar": np.array([[-0.5, -0.5, 0.0], [0.5, -0.5, 0.0], [0.5, 0.5, 0.0], [-0.5, 0.5, 0.0]]),
    "collinear3": np.array([[-1.0, -1.0, -1.0], [0.0, 0.0, 0.0], [2.0, 2.0, 2.0]]),
}
PRIM = ("sphere", "capsule", "box", "ellipsoid", "cylinder")
PLACEMENTS = ["coincident", "touch_x", "half_x", "apart_x", "small_generic", "diag_touch", "same_object", "touch_z", "tiny_gap_x", "small_gap_x", "small_gap_z"]
ORI_PAIRS = [(0, 0), (5, 0), (24, 28), (0, 31), (13, 26)]


def _items():
    out = []
    for t in sc.TYPES:
        for i in range(sc.n_sizes(t)):
            out.append((t, ("base", i)))
        for j in range(len(EXTRA.get(t, []))):
            out.append((t, ("extra", j)))
    for name in ZERO_HULLS:
        out.append(("hull", ("zero", name)))
    return out


ITEMS = _items()


def make(item, ori, centre):
    from distance3d import colliders as C
    t, (kind, idx) = item
    if kind == "base":
        return sc.build(t, idx, ori, centre, want_ref=False)[0]
    if kind == "zero":
        v = ZERO_HULLS[idx] @ sc.ROTS[ori].T + centre
        return C.ConvexHullVertices(np.ascontiguousarray(v))
    # extra sizes: temporarily extend the size table
    sizes = sc.SIZES[t]
    sizes.append(EXTRA[t][idx])
    try:
        return sc.build(t, len(sizes) - 1, ori, centre, want_ref=False)[0]
    finally:
        sizes.pop()


def warmup():
    from distance3d import gjk, mpr, epa
    from distance3d.gjk import _gjk_jolt
    for t in sc.TYPES:
        A, _ = sc.build(t, 0, 0, np.zeros(3))
        for c in ([3.0, 0.1, 0.2], [0.2, 0.1, 0.0]):
            B, _ = sc.build("box", 0, 0, np.array(c))
            for fn in entries(t, "box"):
                try:
                    fn[1](A, B)
                except AssertionError:
                    pass


def enumerate_states(tier, seed):
    states = []
    n = len(ITEMS)
    for ia in range(n):
        for ib in range(n):
            for pl in range(len(PLACEMENTS)):
                states.append({"a": ia, "b": ib, "pl": pl, "op": 0})
            for op in range(1, len(ORI_PAIRS)):
                for pl in ((2, 1) if tier == "quick" else (0, 1, 2, 4, 5)):
                    states.append({"a": ia, "b": ib, "pl": pl, "op": op})
    states += vs_states()
    meta = {"bound_completed": "%d collider variants (incl. aspect-1e4 needles/plates, zero-volume hulls) fully crossed as ordered pairs x "
                               "%d placements (identity orientations) + %d orientation pairs x %d placements + vertex/segment and "
                               "segment/segment pairs in general position (3 segments x 4 parameters x 4 normals x 4 gaps, 3 pairings)" %
                               (n, len(PLACEMENTS), len(ORI_PAIRS) - 1, 2 if tier == "quick" else 5), "exhaustive": True}
    return states, meta


def entries(ta, tb):
    from distance3d import gjk, mpr
    from distance3d.gjk import _gjk_jolt
    e = [("gjk.gjk", lambda a, b: gjk.gjk(a, b)),
         ("gjk_intersection", lambda a, b: gjk.gjk_intersection(a, b)),
         ("gjk_distance_jolt_iterations", lambda a, b: _gjk_jolt.gjk_distance_jolt_iterations(a, b)),
         ("gjk_distance_original", lambda a, b: gjk.gjk_distance_original(a, b)),
         ("gjk_intersection_libccd", lambda a, b: gjk.gjk_intersection_libccd(a, b)),
         ("nesterov", lambda a, b: gjk.gjk_nesterov_accelerated(a, b)),
         ("nesterov_acc", lambda a, b: gjk.gjk_nesterov_accelerated(a, b, use_nesterov_acceleration=True)),
         ("mpr_intersection", lambda a, b: mpr.mpr_intersection(a, b)),
         ("mpr_penetration", lambda a, b: mpr.mpr_penetration(a, b))]
    if ta in PRIM and tb in PRIM:
        e.append(("nesterov_primitives", lambda a, b: gjk.gjk_nesterov_accelerated_primitives(a, b)))
        e.append(("nesterov_primitives_acc", lambda a, b: gjk.gjk_nesterov_accelerated_primitives(a, b, use_nesterov_acceleration=True)))
    return e


def _viol(entry, kind, cls, detail):
    return {"kind": kind, "entry": entry, "sig": "%s:%s:%s" % (entry, kind, cls), "detail": detail}


def _label(item):
    t, (kind, idx) = item
    if kind == "base":
        return t
    if kind == "extra":
        return t + "_aspect1e4"
    return "hull_" + str(idx)


def _small_polytope(item):
    t, (kind, idx) = item
    if kind == "zero":
        return True
    if kind != "base":
        return False
    if t == "box":
        return True
    if t in ("mesh", "hull"):
        return sc.SIZES[t][idx][0] in ("tetra", "cube", "octa", "skew", "offtetra", "corner", "skewraw")
    return False


def _genuine_tetrahedron(simplex, A, B):
    S = np.asarray(simplex, dtype=float)
    if S.shape != (4, 3) or not np.all(np.isfinite(S)):
        return False
    M = np.vstack([S.T, np.ones(4)])
    if abs(np.linalg.det(M)) < 1e-9:
        return False
    lam = np.linalg.solve(M, np.array([0.0, 0.0, 0.0, 1.0]))
    if np.min(lam) < -1e-9:      # the origin may lie on the boundary of the tetrahedron (concentric symmetric shapes)
        return False
    for d in sc.DIRS:
        d = np.ascontiguousarray(d)
        for sgn in (1.0, -1.0):
            n = sgn * d
            h = float(np.asarray(A.support_function(n)) @ n) - float(np.asarray(B.support_function(-n)) @ n)
            if np.max(S @ n) > h + 1e-9:
                return False
    return True


def _finite_result(name, r):
    from distance3d.utils import MAX_FLOAT
    if name in ("gjk.gjk",):
        if r[0] == MAX_FLOAT and r[1] is None:
            return True
        return instr.finite(r[0]) and instr.finite(r[1]) and instr.finite(r[2])
    if name == "gjk_distance_original":
        return instr.finite(r[0]) and instr.finite(r[1]) and instr.finite(r[2])
    if name.startswith("nesterov"):
        return instr.finite(r[1])
    if name == "mpr_penetration":
        return all(instr.finite(x) for x in r[1:] if x is not None)
    return True


# ------------------------------------------------------------------ zero-volume pairs in general position
#
# single vertex next to the interior (or an end) of a segment, and segment next to segment: 3 segments x 4 parameters along the segment
# x 4 perpendicular directions x 4 gaps (0, 1e-7, 1e-5, 1e-3), both argument orders, all entry points

VS_SEGMENTS = [((-0.5, 0.0, 0.0), (0.5, 0.0, 0.0)), ((-0.3, 0.4, -0.2), (0.6, -0.1, 0.5)), ((0.1, 0.2, -0.9), (0.15, 0.25, 0.8))]
VS_T = (0.0, 0.25, 0.5, 0.7)
VS_GAPS = (0.0, 1e-7, 1e-5, 1e-3)


def vs_states():
    return [{"k": "vs", "seg": i, "t": j} for i in range(len(VS_SEGMENTS)) for j in range(len(VS_T))]


def run_vs(desc):
    from distance3d import colliders as C
    a, b = [np.array(p, dtype=float) for p in VS_SEGMENTS[desc["seg"]]]
    t = VS_T[desc["t"]]
    u = (b - a) / np.linalg.norm(b - a)
    e1 = np.cross(u, [0.3, -0.5, 0.8])
    e1 /= np.linalg.norm(e1)
    e2 = np.cross(u, e1)
    viol, n_eval, hist = [], 0, {"support_calls": {}, "entry": {}}
    seen = set()
    for ni, nrm in enumerate((e1, -e1, e2, (e1 + e2) / np.sqrt(2.0))):
        for gap in VS_GAPS:
            p = a + t * (b - a) + gap * nrm
            seg = C.ConvexHullVertices(np.ascontiguousarray(np.array([a, b])))
            vert = C.ConvexHullVertices(np.ascontiguousarray(np.array([p])))
            seg2 = C.ConvexHullVertices(np.ascontiguousarray(np.array([p - 0.4 * e2, p + 0.6 * e2])))
            for label, X, Y in (("vertex-segment", vert, seg), ("segment-vertex", seg, vert), ("segment-segment", seg, seg2)):
                for name, fn in entries("hull", "hull"):
                    instr.instrument([X, Y], budget=BUDGET)
                    n_eval += 1
                    try:
                        r = fn(X, Y)
                        kind = None if _finite_result(name, r) else "nonfinite_output"
                    except instr.BudgetExceeded:
                        kind = "more_than_1000_support_evaluations"
                    except Exception as e:  # noqa
                        kind = "exception:" + type(e).__name__
                    finally:
                        instr.uninstrument([X, Y])
                    hist["entry"][name] = 1
                    if kind is not None:
                        v = _viol(name, kind, label + ":general_position", {"segment": [a, b], "t": t, "normal": nrm, "gap": gap})
                        if v["sig"] not in seen:
                            seen.add(v["sig"])
                            viol.append(v)
    return {"viol": viol, "n_eval": n_eval, "n_trans": n_eval, "traces": n_eval, "nontrivial_n": 1, "hist": hist}


def run_state(desc):
    if desc.get("k") == "vs":
        return run_vs(desc)
    from distance3d import epa
    ia, ib = ITEMS[desc["a"]], ITEMS[desc["b"]]
    oa, ob = ORI_PAIRS[desc["op"]]
    pl = PLACEMENTS[desc["pl"]]
    A = make(ia, oa, np.zeros(3))
    B0 = make(ib, ob, np.zeros(3))
    hA = 0.5 * (A.aabb()[:, 1] - A.aabb()[:, 0])
    hB = 0.5 * (B0.aabb()[:, 1] - B0.aabb()[:, 0])
    cAB = 0.5 * (A.aabb()[:, 1] + A.aabb()[:, 0]) - 0.5 * (B0.aabb()[:, 1] + B0.aabb()[:, 0])
    s = float(max(1e-3, min(np.max(hA), np.max(hB))))
    if pl == "coincident":
        off = np.zeros(3)
    elif pl == "touch_x":
        off = cAB + np.array([hA[0] + hB[0], 0.0, 0.0])
    elif pl == "tiny_gap_x":
        off = cAB + np.array([hA[0] + hB[0] + 1e-9, 0.0, 0.0])
    elif pl == "small_gap_x":
        off = cAB + np.array([hA[0] + hB[0] + 1e-5, 0.0, 0.0])
    elif pl == "small_gap_z":
        off = cAB + np.array([0.0, 0.0, hA[2] + hB[2] + 1e-5])
    elif pl == "half_x":
        off = cAB + np.array([0.5 * (hA[0] + hB[0]), 0.0, 0.0])
    elif pl == "apart_x":
        off = cAB + np.array([2.0 * (hA[0] + hB[0]) + 1.0, 0.0, 0.0])
    elif pl == "small_generic":
        off = s * np.array([0.3, 0.2, 0.1])
    elif pl == "diag_touch":
        off = cAB + (hA + hB)
    elif pl == "touch_z":
        off = cAB + np.array([0.0, 0.0, hA[2] + hB[2]])
    else:
        off = np.zeros(3)
    if pl == "same_object":
        B = A
        tb_label = _label(ia)
        tb = ia[0] if ia[1][0] != "zero" else "hull"
    else:
        B = make(ib, ob, off)
        tb_label = _label(ib)
        tb = ib[0]
    ta = ia[0]
    cls = "%s-%s" % (_label(ia), tb_label)
    viol, hist = [], {"support_calls": {}, "entry": {}}
    n_eval = 0
    simplex = None
    for name, fn in entries(ta, tb):
        ctr = instr.instrument([A, B], budget=BUDGET)
        n_eval += 1
        try:
            r = fn(A, B)
        except instr.BudgetExceeded:
            viol.append(_viol(name, "more_than_1000_support_evaluations", cls + ":" + pl, {"off": off}))
            continue
        except Exception as e:  # noqa
            viol.append(_viol(name, "exception:" + type(e).__name__, cls + ":" + pl, {"exc": repr(e)[:200], "off": off}))
            continue
        finally:
            instr.uninstrument([A, B])
        nb = ctr.n
        b = "<=16" if nb <= 16 else "<=64" if nb <= 64 else "<=256" if nb <= 256 else "<=1000"
        hist["support_calls"][b] = hist["support_calls"].get(b, 0) + 1
        hist["entry"][name] = 1
        try:
            fin = _finite_result(name, r)
        except Exception:  # noqa
            fin = False
        if not fin:
            viol.append(_viol(name, "nonfinite_output", cls + ":" + pl, {"result": repr(r)[:300], "off": off}))
        if name == "gjk.gjk" and r[1] is not None and r[0] == 0.0:
            simplex = np.array(r[3], dtype=float)
    if simplex is not None and np.all(np.isfinite(simplex)):
        ctr = instr.instrument([A, B], budget=BUDGET)
        n_eval += 1
        try:
            mtv, faces, success = epa.epa(simplex, A, B)
            if not instr.finite(mtv):
                viol.append(_viol("epa", "nonfinite_output", cls + ":" + pl, {"mtv": mtv, "success": bool(success)}))
            hist["entry"]["epa"] = 1
        except AssertionError:
            hist["entry"]["epa_capacity_assertion"] = 1
            # the capacity assertion is only allowed for smooth shapes: for two small polytopes (<= 8 vertices each) and a
            # genuine GJK tetrahedron (non-degenerate, origin inside, every row inside the Minkowski difference) it is a violation
            try:
                if _small_polytope(ia) and (_small_polytope(ib) or pl == "same_object") and _genuine_tetrahedron(simplex, A, B):
                    viol.append(_viol("epa", "capacity_assertion_on_small_polytopes", cls + ":" + pl, {"simplex": simplex}))
            except Exception:  # noqa
                pass
        except instr.BudgetExceeded:
            viol.append(_viol("epa", "more_than_1000_support_evaluations", cls + ":" + pl, {}))
        except Exception as e:  # noqa
            viol.append(_viol("epa", "exception:" + type(e).__name__, cls + ":" + pl, {"exc": repr(e)[:200]}))
        finally:
            instr.uninstrument([A, B])
    degenerate = ia[1][0] != "base" or ib[1][0] != "base" or ta in ("disk", "ellipse") or tb in ("disk", "ellipse") \
        or pl in ("coincident", "touch_x", "same_object", "diag_touch", "touch_z", "tiny_gap_x", "small_gap_x", "small_gap_z")
    sample = None
    if desc["a"] == 7 and desc["pl"] == 1 and desc["op"] == 0 and ib[1][0] == "zero":
        sample = {"desc": desc, "A": _label(ia), "B": _label(ib), "placement": pl, "offset": off}
    return {"viol": viol, "n_eval": n_eval, "n_trans": n_eval, "traces": n_eval, "nontrivial_n": 1 if degenerate else 0,
            "hist": hist, "sample": sample}
