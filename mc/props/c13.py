"""C13 - point containment predicates agree with the shapes, the distance functions and the support functions.

State = (predicate/shape, size, orientation, offset).  Points are constructed from boundary features: for every
direction n of the alphabet (lattice + generic + the shape's own local axes, which hit apex, rim, corner, face
centre, axis) the boundary point argsup(n) is moved along n by {-s, -1e-3, -1e-6, -2 tol, -tol/4?, +2 tol, +1e-6, +1e-3, +s}
(tol = 1e-9*L).  Each point is classified by the reference model: must be True if a ball of radius tol around
it lies in the shape, must be False if its exact distance to the shape is >= tol, otherwise not judged.
Batch evaluation must equal element-wise evaluation.
"""
import itertools

import numpy as np

from .. import scenes as sc

PROPERTY = "C13"
TECHNIQUE = ("bounded-exhaustive enumeration of shape descriptors x constructed boundary-offset points on the real predicates "
             "vs exact inside/outside classification of the reference model, cross-checked against the library's own "
             "point_to_<shape> distances and support functions")
RULE = ("state = (shape,size,orientation,offset); per state ~36 directions x 8 normal offsets + feature points are evaluated "
        "as one batch and as singletons; judged = points classified inside (inscribed ball >= tol) or outside (distance >= tol); "
        "non-trivial = judged point within 1e-6 of the boundary; distinct = distinct (state, point)")
ASSUMPTIONS = ["exact point-to-set distance / inscribed-ball bound of mc/refmodel/shapes.py", "tol = 1e-9*L, L = max(1, size, centre distance)",
               "primitive domain P: feature sizes in [0.2, 1e2]"]
CHUNK = 20

SHAPES = {
    "sphere": [0, 2, 3], "capsule": [0, 2], "ellipsoid": [0, 2, 3], "disk": [0, 2, 3], "cone": [0, 2], "cylinder": [0, 2],
    "box": [0, 2, 3, 4], "mesh": [0, 2, 3, 4, 5, 6, 7],
}


# sizes used by this check only (index 100 + k): ellipsoid with radii equal up to 1e-5 relative (not a sphere), cylinder with
# radius = length / 2 (bounding-sphere early-outs are largest there)
# exact ties between the size parameters (round 3: a 'radii all equal -> sphere' fast path): ellipsoids with three / two equal radii,
# capsule / cylinder / cone with radius = height, cube-shaped box is size 4 of the shared alphabet
EXTRA = {"ellipsoid": [(0.5, 0.5 * (1 + 4e-6), 0.5 * (1 - 6e-6)), (0.5, 0.5, 0.5), (0.5, 0.5, 0.3), (0.3, 0.5, 0.5), (60.0, 60.0, 60.0)],
         "cylinder": [(0.5, 1.0), (0.5, 0.5)], "capsule": [(0.5, 0.5)], "cone": [(0.5, 0.5)]}
# mesh variant 'meshlib': the same vertex clouds with the triangles that the library's own make_convex_mesh produces
MESHLIB = [5, 6, 7]


def size_of(t, s):
    return EXTRA[t][s - 100] if s >= 100 else sc.SIZES["mesh" if t == "meshlib" else t][s]


def build_shape(t, s, o, centre):
    T = sc.pose(o, centre)
    return sc.build_explicit("mesh" if t == "meshlib" else t, size_of(t, s), T)


def warmup():
    import distance3d.containment_test  # noqa
    import distance3d.distance  # noqa


def enumerate_states(tier, seed):
    states = []
    for t, sizes in SHAPES.items():
        for s in sizes:
            for o in range(len(sc.ROTS)):
                for f in range(len(sc.OFFSETS)):
                    if tier == "quick" and f not in (0, 3, 1 + (seed % 2)):
                        continue
                    states.append({"t": t, "s": s, "o": o, "f": f})
            if tier == "thorough":
                # dense family: 672 further orientations x 2 offsets, points constructed from 152 directions
                for o in range(len(sc.ROTS), len(sc.ALL_ROTS)):
                    for f in (0, 2):
                        states.append({"t": t, "s": s, "o": o, "f": f, "dense": 1})
    for t, ss in (("ellipsoid", [100, 101, 102, 103, 104]), ("cylinder", [100, 101]), ("capsule", [100]), ("cone", [100]), ("meshlib", MESHLIB)):
        for s in ss:
            for o in range(len(sc.ROTS)):
                for f in (0, 3):
                    states.append({"t": t, "s": s, "o": o, "f": f})
    return states, {"bound_completed": "8 predicates x sizes in domain P (incl. exact ties between size parameters) x 32 orientations x %s offsets, ~300 constructed points each%s"
                                       % ("3 of 4 (seed-selected)" if tier == "quick" else "4",
                                          " + dense family 672 orientations x 2 offsets, ~1400 constructed points each" if tier == "thorough" else ""),
                    "exhaustive": tier == "thorough"}


def _viol(entry, kind, cls, detail):
    return {"kind": kind, "entry": entry, "sig": "%s:%s:%s" % (entry, kind, cls), "detail": detail}


def predicate(t, s, o, centre):
    from distance3d import containment_test as ct
    T = sc.pose(o, centre)
    sz = size_of(t, s)
    if t == "meshlib":
        from distance3d import mesh as dmesh
        v, _ = sc.mesh_data(sz[0])
        vv = np.ascontiguousarray(v * sz[1])
        tri = dmesh.make_convex_mesh(vv)
        return lambda P: ct.points_in_convex_mesh(P, T, vv, tri)
    if t == "sphere":
        return lambda P: ct.points_in_sphere(P, centre.copy(), float(sz))
    if t == "capsule":
        return lambda P: ct.points_in_capsule(P, T, sz[0], sz[1])
    if t == "ellipsoid":
        return lambda P: ct.points_in_ellipsoid(P, T, np.array(sz, dtype=float))
    if t == "disk":
        return lambda P: ct.points_in_disk(P, centre.copy(), float(sz), np.ascontiguousarray(T[:3, 2]))
    if t == "cone":
        return lambda P: ct.points_in_cone(P, T, sz[0], sz[1])
    if t == "cylinder":
        return lambda P: ct.points_in_cylinder(P, T, sz[0], sz[1])
    if t == "box":
        return lambda P: ct.points_in_box(P, T, np.array(sz, dtype=float))
    if t == "mesh":
        v, tri = sc.mesh_data(sz[0])
        return lambda P: ct.points_in_convex_mesh(P, T, np.ascontiguousarray(v * sz[1]), tri)
    raise ValueError(t)


def dist_fn(t, s, o, centre):
    from distance3d import distance as D
    T = sc.pose(o, centre)
    sz = size_of(t, s)
    if t == "disk":
        return lambda p: D.point_to_disk(p, centre.copy(), float(sz), np.ascontiguousarray(T[:3, 2]))[0]
    if t == "box":
        return lambda p: D.point_to_box(p, T, np.array(sz, dtype=float))[0]
    if t == "ellipsoid":
        return lambda p: D.point_to_ellipsoid(p, T, np.array(sz, dtype=float))[0]
    if t == "cylinder":
        return lambda p: D.point_to_cylinder(p, T, sz[0], sz[1])[0]
    return None


def run_state(desc):
    t, s, o, f = desc["t"], desc["s"], desc["o"], desc["f"]
    centre = sc.OFFSETS[f].copy()
    col, ref = build_shape(t, s, o, centre)
    L = max(1.0, ref.size(), float(np.linalg.norm(centre)))
    tol = 1e-9 * L
    cls = t
    R = sc.ALL_ROTS[o]
    dirs = list(sc.DENSE_DIRS if desc.get("dense") else sc.DIRS) + [sgn * R[:, i] for i in range(3) for sgn in (1.0, -1.0)]
    size = ref.size()
    offs = [-0.45 * size, -1e-3, -1e-6, -2.0 * tol, 2.0 * tol, 1e-6, 1e-3, 0.5 * size]
    pts = [ref.centre(), ref.anchor()[0]]
    for n in dirs:
        n = n / np.linalg.norm(n)
        p0 = ref.argsup(n)
        pts.append(p0)
        for d in offs:
            pts.append(p0 + d * n)
    if t == "disk":
        # in-plane points (exact plane for axis-aligned normals): rim offsets in the plane
        nrm = R[:, 2]
        for n in dirs:
            tdir = n - (n @ nrm) * nrm
            if np.linalg.norm(tdir) < 1e-9:
                continue
            tdir = tdir / np.linalg.norm(tdir)
            for d in (-0.5 * size / 2, -1e-3, -1e-6, -2 * tol, 2 * tol, 1e-6, 1e-3):
                pts.append(centre + (sc.SIZES[t][s] + d) * tdir)
    P = np.ascontiguousarray(np.array(pts, dtype=float))
    pred = predicate(t, s, o, centre)
    viol, hist = [], {"judged": {"inside": 0, "outside": 0, "unjudged": 0}}
    try:
        res = np.asarray(pred(P))
    except Exception as e:  # noqa
        return {"viol": [_viol("points_in_" + t, "exception:" + type(e).__name__, cls, {"exc": repr(e)[:200]})], "n_eval": 1}
    if res.shape != (len(P),) or res.dtype != bool:
        viol.append(_viol("points_in_" + t, "result_shape_or_dtype", cls, {"shape": res.shape, "dtype": str(res.dtype)}))
        return {"viol": viol, "n_eval": 1}
    dfn = dist_fn(t, s, o, centre)
    n_eval, near = 1, 0
    seen = set()

    def add(v):
        if v["sig"] not in seen:
            seen.add(v["sig"])
            viol.append(v)
    for i, p in enumerate(P):
        # element-wise == batch
        try:
            single = bool(np.asarray(pred(np.ascontiguousarray(p[np.newaxis])))[0])
        except Exception as e:  # noqa
            add(_viol("points_in_" + t, "exception_single:" + type(e).__name__, cls, {"p": p, "exc": repr(e)[:200]}))
            continue
        n_eval += 1
        dist = ref.dist(p)
        if single != bool(res[i]) and (dist >= tol or (t != "disk" and ref.inball(p) >= tol)):
            # (points within tol of the boundary may legitimately flip with the rounding of the batched product)
            add(_viol("points_in_" + t, "batch_differs_from_single", cls, {"p": p, "batch": bool(res[i]), "single": single}))
        if t == "disk":
            # zero-thickness: 'inside' only for points exactly in the plane (axis-aligned normal), judged in-plane
            z = float((p - centre) @ R[:, 2])
            rho = float(np.linalg.norm((p - centre) - z * R[:, 2]))
            inside = (z == 0.0 and o < sc.N_CUBE and sc.SIZES[t][s] - rho >= tol)
        else:
            inside = ref.inball(p) >= tol
        outside = dist >= tol
        if inside:
            hist["judged"]["inside"] += 1
            if not res[i]:
                add(_viol("points_in_" + t, "inside_point_rejected", cls, {"p": p, "inball": ref.inball(p), "tol": tol, "desc": desc}))
        elif outside:
            hist["judged"]["outside"] += 1
            if res[i]:
                add(_viol("points_in_" + t, "outside_point_accepted", cls, {"p": p, "dist": dist, "tol": tol, "desc": desc}))
        else:
            hist["judged"]["unjudged"] += 1
            continue
        if dist < 1e-6 and (inside or outside) or (inside and ref.inball(p) < 1e-6):
            near += 1
        # cross-check with the library's own distance function
        if dfn is not None:
            try:
                d = float(dfn(np.ascontiguousarray(p)))
                n_eval += 1
                if res[i] and not d <= tol:
                    add(_viol("point_to_" + t, "contained_but_distance_positive", cls, {"p": p, "distance": d, "tol": tol}))
                if (not res[i]) and outside and not d > 0.0:
                    add(_viol("point_to_" + t, "not_contained_but_distance_zero", cls, {"p": p, "distance": d, "true_dist": dist}))
            except Exception as e:  # noqa
                add(_viol("point_to_" + t, "exception:" + type(e).__name__, cls, {"p": p, "exc": repr(e)[:200]}))
        # cross-check with the collider's support function
        if res[i] and i % 7 == 0:
            for n in sc.DIRS[:8]:
                sp = col.support_function(np.ascontiguousarray(n))
                n_eval += 1
                if float(p @ n) > float(np.asarray(sp) @ n) + tol:
                    add(_viol("support_function", "contained_point_beyond_support", cls, {"p": p, "n": n}))
                    break
    sample = {"desc": desc, "points": len(P), "example_point": P[5], "contained": bool(res[5])} if (o == 25 and f == 0 and s == 0) else None
    return {"viol": viol, "n_eval": n_eval, "n_trans": len(P), "traces": len(P), "nontrivial_n": near, "hist": hist, "sample": sample}
