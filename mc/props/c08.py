"""C08 - MPR penetration result separates the pair and its contact point is shared.

Overlapping scenes of all type pairs.  Checks for mpr_penetration(A, B):
  * depth t >= 0, |u| = 1 or (u = 0 and t = 0), finite outputs;
  * contact position is a member of both colliders (2e-3*L);
  * residual overlap after translating B by t*u is <= 2e-3*L and t >= depth - 2e-3*L:
      polytope pairs: exact over the SAT axes;
      other pairs: sound lower bounds from an inscribed ball (a ball of radius rho inside A and B' proves
      penetration depth >= 2*rho), never an alarm from an upper bound;
  * mpr_intersection agrees with the flag of mpr_penetration.
"""
import itertools

import numpy as np

from .. import gjkscenes as gs
from .. import instr
from .. import scenes as sc
from ..refmodel import depth as dp
from . import c07

PROPERTY = "C08"
TECHNIQUE = ("bounded-exhaustive enumeration of overlapping scene descriptors (all 100 ordered type pairs, deviation bound 2) "
             "on the real mpr_penetration, judged by exhaustive SAT-axis enumeration (polytopes) and inscribed-ball lower "
             "bounds (smooth shapes) of the reference model")
RULE = ("state = overlapping scene descriptor; one mpr_penetration + one mpr_intersection run per state; non-trivial = MPR "
        "reported an intersection with positive depth; distinct = distinct descriptor")
ASSUMPTIONS = ["tolerance 2e-3*L (default mpr_tolerance)", "SAT axes from scipy ConvexHull; inscribed-ball bounds from closed forms"]
CHUNK = 60
STATE_TIMEOUT = 120.0
POLY = c07.POLY


def warmup():
    from distance3d import mpr
    A, _ = sc.build("box", 0, 0, np.zeros(3))
    B, _ = sc.build("mesh", 0, 0, np.array([0.2, 0.1, 0.0]))
    mpr.mpr_penetration(A, B)
    A, _ = sc.build("sphere", 0, 0, np.zeros(3))
    mpr.mpr_penetration(A, B)
    mpr.mpr_penetration(A, A)


# states of the thorough tier (three deviations) that carry a recorded finding: also part of the quick tier, so that the finding is
# re-examined (and its KNOWN-FINDING line printed) on every run
REGRESSION = [
    {'ta': 'cone', 'tb': 'box', 'pl': 17, 'u': 3, 'oa': 9, 'ob': 0, 'sa': 0, 'sb': 0, 'fa': 0, 'ma': 0, 'mb': 0},
    {'ta': 'disk', 'tb': 'cone', 'pl': 17, 'u': 5, 'oa': 0, 'ob': 29, 'sa': 0, 'sb': 0, 'fa': 0, 'ma': 0, 'mb': 0},
    {'ta': 'cone', 'tb': 'box', 'pl': 17, 'u': 5, 'oa': 9, 'ob': 0, 'sa': 0, 'sb': 0, 'fa': 0, 'ma': 0, 'mb': 0},
]


def enumerate_states(tier, seed):
    states = []
    for ta, tb in itertools.product(sc.TYPES, sc.TYPES):
        states += gs.enumerate_custom(ta, tb, c07.ALPH, 3 if tier == "thorough" else 2)
    have = {repr(sorted(d.items())) for d in states}
    states += [dict(d) for d in REGRESSION if repr(sorted(d.items())) not in have]
    return states, {"bound_completed": "deviation bound %d over 9 coordinates (9 overlapping placements x 9 directions x 7x7 orientations x "
                                       "4x4 sizes x offsets x margins), all 100 ordered type pairs" % (3 if tier == "thorough" else 2), "exhaustive": True}


def _viol(kind, cls, detail):
    return {"kind": kind, "entry": "mpr_penetration", "sig": "mpr_penetration:%s:%s" % (kind, cls), "detail": detail}


def ball_lower_bound(rA, rB, extra_points):
    """2*max_p min(inball_A(p), inball_B(p)) over candidate points: a sound lower bound of the penetration depth."""
    cA, cB = rA.centre(), rB.centre()
    pA, _ = rA.anchor()
    pB, _ = rB.anchor()
    cands = list(extra_points)
    for lam in np.linspace(0.0, 1.0, 11):
        cands.append((1 - lam) * cA + lam * cB)
        cands.append((1 - lam) * pA + lam * pB)
    best, bp = 0.0, None
    for p in cands:
        r = min(rA.inball(p), rB.inball(p))
        if r > best:
            best, bp = r, p
    return 2.0 * best, bp


def run_state(desc):
    from distance3d import mpr
    s = gs.build(desc)
    A, B, rA, rB = s["A"], s["B"], s["rA"], s["rB"]
    L = s["truth"]["L"]
    tol = 2e-3 * L
    cls = gs.pair_class(desc)
    kind = gs.PLACEMENTS[desc["pl"]][0]
    tb = desc["ta"] if kind in ("identical", "same") else desc["tb"]
    mb = desc["ma"] if kind in ("identical", "same") else desc["mb"]
    poly = desc["ta"] in POLY and tb in POLY and not desc["ma"] and not mb
    viol, hist = [], {}
    instr.instrument([A, B], budget=2000)
    try:
        res = mpr.mpr_penetration(A, B)
        flag2 = mpr.mpr_intersection(A, B)
    except instr.BudgetExceeded:
        return {"viol": [_viol("no_termination_2000_support_calls", cls, {})], "n_eval": 1}
    except Exception as e:  # noqa
        return {"viol": [_viol("exception:" + type(e).__name__, cls, {"exc": repr(e)[:200]})], "n_eval": 1}
    finally:
        instr.uninstrument([A, B])
    inter, t, u, pos = res
    shallow = gs.PLACEMENTS[desc["pl"]][0] == "pen" and gs.PLACEMENTS[desc["pl"]][1] < 1e-3
    if bool(inter) != bool(flag2) and not shallow:
        # (interpenetrations of 1e-6 / 1e-7 are inside the grazing band in which either boolean is acceptable, see C02)
        viol.append(_viol("flag_differs_from_mpr_intersection", cls, {"penetration": bool(inter), "intersection": bool(flag2)}))
    truth = s["truth"]
    if not inter:
        # certified overlaps must be found (same claim as C02, judged here only when clearly certified)
        if truth.get("overlap") and min(truth.get("depthA", 0), truth.get("depthB", 0)) >= 1e-3 * L:
            viol.append(_viol("missed_certified_overlap", cls, {"truth_depth": truth.get("depth")}))
        return {"viol": viol, "n_eval": 2, "n_trans": 2, "traces": 2, "hist": {"mpr": {"no_intersection": 1}}}
    if t is None or u is None or pos is None or not (instr.finite(t) and instr.finite(u) and instr.finite(pos)):
        viol.append(_viol("nonfinite", cls, {"t": t, "u": u, "pos": pos}))
        return {"viol": viol, "n_eval": 2}
    t = float(t)
    u = np.asarray(u, dtype=float)
    pos = np.asarray(pos, dtype=float)
    nu = float(np.linalg.norm(u))
    if t < 0:
        viol.append(_viol("negative_depth", cls, {"t": t}))
    if not (abs(nu - 1.0) <= 1e-9 or (nu == 0.0 and abs(t) <= 1e-12)):
        viol.append(_viol("direction_not_unit", cls, {"u": u, "t": t}))
    dA, dB = rA.dist(pos), rB.dist(pos)
    if dA > tol or dB > tol:
        # which branch of mpr_penetration produced the position?  (same test as the library: v0 x v1 ~ 0  <=>  the
        # centres lie on the penetration axis -> _find_penetration_segment, see known finding KF-C08-segment-contact)
        from distance3d.utils import EPSILON
        v0 = np.asarray(A.center(), dtype=float) - np.asarray(B.center(), dtype=float)
        if np.all(v0 == 0.0):
            v0 = v0.copy()
            v0[0] += EPSILON * 10.0
        dd = -v0 / np.linalg.norm(v0)
        v1 = np.asarray(A.support_function(dd), dtype=float) - np.asarray(B.support_function(-dd), dtype=float)
        cr = np.cross(v0, v1)
        seg = float(cr @ cr) < EPSILON and not np.all(v1 == 0.0)
        mid_ok = seg and np.allclose(pos, 0.5 * (np.asarray(A.support_function(dd)) + np.asarray(B.support_function(-dd))), atol=1e-12 * L)
        branch = ":centres_on_axis_midpoint_of_extreme_points" if mid_ok else ":portal_branch"
        if not mid_ok:
            # recorded finding KF-C08-portal-position-not-shared: the portal selected by the centre ray is far from the minimum-depth
            # direction, so the witness points (and their midpoint) leave the other collider.  Symptom: the reported depth exceeds an
            # upper bound of the true depth (smallest overlap of the supporting slabs over the direction lattice) by more than 2x.
            ub = min(rA.h(d) + rB.h(-d) for d in [np.asarray(x, dtype=float) for x in sc.DIRS] + [-np.asarray(x, dtype=float) for x in sc.DIRS])
            if ub > 0 and t > 2.0 * ub:
                branch += ":depth_far_from_minimal"
        viol.append(_viol("contact_position_not_shared", cls + branch, {"pos": pos, "distA": dA, "distB": dB, "tol": tol}))
    m = t * u
    if poly:
        VA, VB = dp.polytope_vertices(rA), dp.polytope_vertices(rB)
        same = kind in ("identical", "same")
        axes = dp.sat_axes(VA - VA.mean(axis=0), VB - VB.mean(axis=0), (desc["ta"], desc["sa"], desc["oa"]),
                           (tb, desc["sa"] if same else desc["sb"], desc["oa"] if same else desc["ob"]))
        gstar, nstar = dp.polytope_depth(VA, VB, axes)
        r, nr = dp.polytope_residual(VA, VB, axes, m)
        if r > tol:
            viol.append(_viol("residual_overlap", cls, {"t": t, "u": u, "residual": r, "axis": nr, "depth": gstar, "tol": tol}))
        if t < gstar - tol:
            viol.append(_viol("depth_too_small", cls, {"t": t, "depth": gstar, "axis": nstar, "tol": tol}))
        hist["oracle"] = {"exact_sat": 1}
    else:
        lb_depth, p0 = ball_lower_bound(rA, rB, [pos, truth.get("common")] if truth.get("common") is not None else [pos])
        if t < lb_depth - tol:
            viol.append(_viol("depth_too_small", cls, {"t": t, "depth_lower_bound": lb_depth, "ball_centre": p0, "tol": tol}))
        rB2 = rB.translated(m)
        lb_res, p1 = ball_lower_bound(rA, rB2, [pos, pos + 0.5 * m, pos + m])
        if lb_res > tol:
            viol.append(_viol("residual_overlap", cls, {"t": t, "u": u, "residual_lower_bound": lb_res, "ball_centre": p1, "tol": tol}))
        hist["oracle"] = {"inscribed_ball_bounds": 1}
    hist["mpr"] = {"intersection": 1}
    sample = None
    if desc["pl"] == 16 and desc["u"] == 3 and desc["ta"] == "box" and tb == "cylinder" and desc["oa"] == 0 and desc["ob"] == 0 and desc["sa"] == 0:
        sample = {"desc": desc, "depth": t, "direction": u, "contact_position": pos}
    return {"viol": viol, "n_eval": 2, "n_trans": 2, "traces": 2, "nontrivial_n": 1 if t > 0 else 0, "hist": hist, "sample": sample}
