"""C12 - results are symmetric in the arguments, invariant under rigid motion, and scale with the scene.

Transition relations applied to the states of the scene lattice (C01/C02/C07-C09 queries) and of the primitive
alphabets (C10/C11 queries):
  swap            exchange the two arguments,
  rigid motion g  one of 8 proper rigid motions (cube rotations, generic rotations, translations (1,2,3), (1e3,0,0))
                  applied to BOTH arguments,
  scaling k       uniform scaling by 1e-2 / 1e2 where the scaled scene stays inside the domain.
Relation: scalar outputs (distance, depth, |mtv|) agree within the tolerance of the owning property (scaled by k),
booleans agree on scenes with a certified margin; distance-function outputs agree (and returned points are mapped
by g) for the primitive functions.
"""
import itertools

import numpy as np

from .. import gjkscenes as gs
from .. import instr
from .. import primscenes as ps
from .. import scenes as sc
from ..refmodel import prims as rp

PROPERTY = "C12"
TECHNIQUE = ("bounded-exhaustive enumeration of scene/primitive states x a fixed set of transformations (swap, 8 rigid motions, "
             "2 scalings) on the real query functions; the relation original-vs-transformed result is the oracle (metamorphic "
             "transition relation, no reference values)")
RULE = ("state = scene descriptor (deviation <= 1, all 100 type pairs) or (distance function, primitive pair); transitions = swap, "
        "rigid motions, scalings, each re-executing gjk.gjk, gjk_distance_original, Nesterov distance, the boolean tests, "
        "or the distance function; non-trivial = transition with a non-identity rotation; "
        "distinct = distinct (state, transformation)")
ASSUMPTIONS = ["tolerances of the owning properties: 1e-5*L (jolt), 1e-3*L (original, Nesterov), 2e-3*L (MPR depth), 1e-6*L (EPA, primitives)",
               "booleans are compared only when the constructed truth has a margin >= 1e-3*L"]
CHUNK = 60
STATE_TIMEOUT = 300.0

MOTIONS = [(5, (0.0, 0.0, 0.0)), (13, (0.0, 0.0, 0.0)), (20, (1.0, 2.0, 3.0)), (24, (0.0, 0.0, 0.0)), (25, (1.0, 2.0, 3.0)),
           (0, (1.0, 2.0, 3.0)), (0, (1000.0, 0.0, 0.0)), (27, (-300.0, 200.0, 100.0))]


# thorough tier: every cube rotation (pure rotation and with a translation) and the nearly-aligned / generic rotations
MOTIONS_T = MOTIONS + [(o, (0.0, 0.0, 0.0)) for o in range(1, 32) if (o, (0.0, 0.0, 0.0)) not in MOTIONS] \
    + [(o, (-2.0, 0.5, 1.0)) for o in range(0, 24)] + [(o, (0.0, 0.0, -1000.0)) for o in (0, 9, 26, 30)]


def motions_for(desc):
    return MOTIONS_T if desc.get("mt") else MOTIONS


def warmup():
    from . import c02, c09
    c02.warmup()
    c09.warmup()
    from distance3d import epa, mpr
    import distance3d.distance  # noqa


def enumerate_states(tier, seed):
    states = []
    for ta, tb in itertools.product(sc.TYPES, sc.TYPES):
        for d in gs.enumerate_pair(ta, tb, 1):
            if d["fa"] == 0:      # far-away offsets are produced by the motions themselves
                d["k"] = "scene"
                if tier == "thorough":
                    d["mt"] = 1
                states.append(d)
        if tier == "thorough":
            for d in gs.enumerate_pair(ta, tb, 2):
                if d["fa"] == 0 and sum(1 for n in gs.COORDS if d[n] != 0) == 2:
                    d["k"] = "scene"
                    states.append(d)
        for pl in (16, 17):
            d = {"ta": ta, "tb": tb, "k": "scene"}
            d.update({n: 0 for n in gs.COORDS})
            d["pl"] = pl
            states.append(d)
    prim = ps.enumerate_states(list(ps.FUNCS), shifts=False)
    for d in prim:
        d["k"] = "prim"
        if tier == "thorough":
            d["mt"] = 1
    states += prim
    return states, {"bound_completed": ("scene lattice with <= 1 deviation (all 100 type pairs, + 2 penetrating placements) and all primitive pairs "
                                        "of the 34 distance functions, each x swap x 8 rigid motions x 2 scalings" if tier != "thorough" else
                                        "scene lattice with <= 2 deviations (all 100 type pairs; <= 1 deviation x %d rigid motions, 2 deviations x 8 rigid "
                                        "motions, + 2 penetrating placements) and all primitive pairs of the 34 distance functions x %d rigid motions, "
                                        "each also x swap x 2-3 scalings" % (len(MOTIONS_T), len(MOTIONS_T))), "exhaustive": True}


def _viol(entry, kind, cls, detail):
    return {"kind": kind, "entry": entry, "sig": "%s:%s:%s" % (entry, kind, cls), "detail": detail}


def G_of(mot):
    o, t = mot
    return sc.pose(o, np.array(t, dtype=float))


def build_pair(spec, G=None, k=1.0):
    out = []
    for key in ("A", "B"):
        t, s, T, m = spec[key]
        T2 = np.array(T, dtype=float)
        T2[:3, 3] *= k
        if G is not None:
            T2 = G @ T2
        c, _ = sc.build_explicit(t, sc.scaled_params(t, s, k), np.ascontiguousarray(T2), m * k, want_ref=False)
        out.append(c)
    return out


def queries(A, B, judged_bool, prim_ok, simplex_ok):
    """Dict of scalar/boolean observations for the pair."""
    from distance3d import gjk, mpr, epa
    obs = {}

    def guard(name, fn):
        try:
            obs[name] = fn()
        except AssertionError:
            obs[name] = "assertion"
        except Exception as e:  # noqa
            obs[name] = "exception:" + type(e).__name__
    r = {}

    def jolt():
        res = gjk.gjk(A, B)
        r["jolt"] = res
        return float(res[0])
    guard("jolt_d", jolt)
    guard("orig_d", lambda: float(gjk.gjk_distance_original(A, B)[0]))
    guard("nest_d", lambda: float(gjk.gjk_nesterov_accelerated_distance(A, B)))
    if prim_ok:
        guard("prim_d", lambda: float(gjk.gjk_nesterov_accelerated_primitives_distance(A, B)))
    if judged_bool:
        guard("b_jolt", lambda: bool(gjk.gjk_intersection(A, B)))
        guard("b_libccd", lambda: bool(gjk.gjk_intersection_libccd(A, B)))
        guard("b_mpr", lambda: bool(mpr.mpr_intersection(A, B)))
        guard("b_nest", lambda: bool(gjk.gjk_nesterov_accelerated_intersection(A, B)))

    # (the MPR depth is not compared: along an origin ray through an edge or vertex several portals are valid and the
    #  reported depth is not a function of the geometry alone; its validity is C08)
    return obs, r.get("jolt")


TOL = {"jolt_d": 1e-5, "orig_d": 1e-3, "nest_d": 1e-3, "prim_d": 1e-3, "mpr_depth": 2e-3 * 2, "epa_len": 1e-6}


def compare(name, a, b, k, L, what, cls, ctx, add):
    if isinstance(a, str) or isinstance(b, str):
        if a != b:
            add(_viol(name, what + ":exception_differs", cls, dict(ctx, original=a, transformed=b)))
        return
    if a is None or b is None:
        if (a is None) != (b is None):
            # MPR penetration flag flips: only judged through the boolean tests
            return
        return
    if isinstance(a, bool):
        if a != b:
            add(_viol(name, what + ":boolean_differs", cls, dict(ctx, original=a, transformed=b)))
        return
    if not (np.isfinite(a) and np.isfinite(b)):
        if np.isfinite(a) != np.isfinite(b) and not (a > 1e300 or b > 1e300):
            add(_viol(name, what + ":finiteness_differs", cls, dict(ctx, original=a, transformed=b)))
        return
    if a > 1e300 or b > 1e300:   # MAX_FLOAT clip: the clipping threshold is not scale invariant by design
        return
    tol = TOL[name] * L * max(k, 1.0) if k >= 1 else TOL[name] * max(1.0, L * k)
    if abs(a * k - b) > tol * 2:
        add(_viol(name, what + ":scalar_differs", cls, dict(ctx, original=a, transformed=b, factor=k, tol=tol * 2)))


def run_scene(desc):
    s = gs.build(desc)
    spec, tr = s["spec"], s["truth"]
    L = tr["L"]
    cls = gs.pair_class(desc)
    viol, seen = [], set()

    def add(v):
        if v["sig"] not in seen:
            seen.add(v["sig"])
            viol.append(v)
    degenerate_mpr = gs.flat_plane_contains_other_centre(s["rA"], s["rB"], L)
    cls_plain = cls

    def cls_of(name):
        return cls_plain + ":flat_plane_contains_other_centre" if (name == "b_mpr" and degenerate_mpr) else cls_plain
    delta = 1e-3 * L
    if tr.get("overlap") is True:
        judged = min(tr.get("depthA", 0), tr.get("depthB", 0)) >= 3 * delta
    elif tr.get("overlap") is False:
        judged = tr["gap"] >= 3 * delta
    else:
        judged = False
    kind = gs.PLACEMENTS[desc["pl"]][0]
    ta = desc["ta"]
    tb = ta if kind in ("identical", "same") else desc["tb"]
    prim_ok = ta in ("sphere", "capsule", "box", "ellipsoid", "cylinder") and tb in ("sphere", "capsule", "box", "ellipsoid", "cylinder") \
        and not spec["A"][3] and not spec["B"][3]
    A, B = build_pair(spec)
    base, _ = queries(A, B, judged, prim_ok, False)
    n_eval, nontriv = len(base), 0
    ctx = {"desc": desc}
    # swap
    B2, A2 = build_pair({"A": spec["B"], "B": spec["A"]})
    o2, _ = queries(B2, A2, judged, prim_ok, False)
    n_eval += len(o2)
    for name in base:
        compare(name, base[name], o2.get(name), 1.0, L, "swap", cls_of(name), ctx, add)
    # rigid motions
    MOT = motions_for(desc)
    for m in range(len(MOT)):
        G = G_of(MOT[m])
        if float(np.linalg.norm(G[:3, 3])) > 1.3e3:
            continue
        Lm = L      # the tolerance scale is that of the pair; it does not grow with the distance from the origin
        Am, Bm = build_pair(spec, G)
        om, _ = queries(Am, Bm, judged, prim_ok, False)
        n_eval += len(om)
        nontriv += 1 if MOT[m][0] != 0 else 0
        for name in base:
            compare(name, base[name], om.get(name), 1.0, Lm, "motion%d" % m, cls_of(name), dict(ctx, motion=MOT[m]), add)
    # scalings (only from unit-size scenes, so that the scaled scene stays in [1e-2, 1e2])
    if desc["sa"] in (0, 3) and desc["sb"] in (0, 3) and desc["pl"] not in (2, 3, 6, 13):
        for k in (0.05, 1e2):     # unit sizes 0.3..1.0 stay inside the domain [1e-2, 1e2]
            if k * L > 1.2e3 or (tr.get("overlap") is False and tr["gap"] * k > 250):
                continue
            Ak, Bk = build_pair(spec, None, k)
            ok, _ = queries(Ak, Bk, judged, prim_ok, False)
            n_eval += len(ok)
            for name in base:
                compare(name, base[name], ok.get(name), k, L, "scale%g" % k, cls_of(name), dict(ctx, scale=k), add)
    return {"viol": viol, "n_eval": n_eval, "n_trans": n_eval, "traces": n_eval, "nontrivial_n": nontriv, "hist": {"kind": {"scene": 1}},
            "sample": {"desc": desc, "observations": base} if (desc["ta"] == "cone" and desc["tb"] == "box" and desc["pl"] == 4) else None}


# ------------------------------------------------------------------ primitives

SYMMETRIC = {"line_to_line", "line_segment_to_line_segment", "plane_to_plane", "triangle_to_triangle", "rectangle_to_rectangle", "disk_to_disk"}


def transform_prim(P, G, k=1.0):
    R, t = G[:3, :3], G[:3, 3]

    def pt(x):
        return R @ (np.asarray(x, dtype=float) * k) + t
    if isinstance(P, rp.Point):
        return rp.Point(pt(P.p))
    if isinstance(P, rp.Line):
        return rp.Line(pt(P.a), R @ P.d)
    if isinstance(P, rp.Segment):
        return rp.Segment(pt(P.a), pt(P.b))
    if isinstance(P, rp.Plane):
        return rp.Plane(pt(P.a), R @ P.m)
    if isinstance(P, rp.Triangle):
        return rp.Triangle(np.array([pt(x) for x in P.pts]))
    if isinstance(P, rp.Rectangle):
        return rp.Rectangle(pt(P.c), np.ascontiguousarray((R @ P.axes.T).T), P.lengths * k)
    if isinstance(P, rp.Disk):
        return rp.Disk(pt(P.ref.c), P.ref.r * k, R @ P.ref.n)
    if isinstance(P, rp.Circle):
        return rp.Circle(pt(P.c), P.r * k, R @ P.n)
    T = np.eye(4)
    if isinstance(P, rp.Box):
        T[:3, :3] = R @ P.T[:3, :3]
        T[:3, 3] = pt(P.T[:3, 3])
        return rp.Box(np.ascontiguousarray(T), P.sz * k)
    if isinstance(P, rp.Ellipsoid):
        T[:3, :3] = R @ P.T[:3, :3]
        T[:3, 3] = pt(P.T[:3, 3])
        return rp.Ellipsoid(np.ascontiguousarray(T), P.radii * k)
    if isinstance(P, rp.Cylinder):
        T[:3, :3] = R @ P.T[:3, :3]
        T[:3, 3] = pt(P.T[:3, 3])
        return rp.Cylinder(np.ascontiguousarray(T), P.r * k, P.length * k)
    raise TypeError(P)


def run_prim(desc):
    name = desc["fn"]
    ka, kb = ps.FUNCS[name]
    A = ps.alph(ka)[desc["i"]]
    viol, seen = [], set()

    def add(v):
        if v["sig"] not in seen:
            seen.add(v["sig"])
            viol.append(v)
    n_eval, nontriv = 0, 0
    tolk = 5e-3 if name == "line_to_circle" else 1e-6
    tagged = name in ("line_segment_to_circle", "disk_to_disk")

    def kind_of(base, pairs):
        """For the two functions with a recorded non-global algorithm: the difference is attributed to the recorded defect
        only if every involved result is a value the recorded procedure yields (mc/symptoms.py)."""
        if not tagged:
            return base
        from . import c10
        for (P, Q, d, x1, x2) in pairs:
            vs, _ = c10.evaluate_pair(name, P, Q)
            # explained = correct (no verdict) or every verdict carries the recognised symptom of the recorded defect
            if any(not v["sig"].endswith((":clamped_line_solution", ":alternating_projection_iterate")) for v in vs if v["kind"] != "UNDECIDED_cap"):
                return base
        return base + ":recorded_nonglobal_procedure"
    for j, B in enumerate(ps.alph(kb)):
        L = ps.scale_L(A, B)
        try:
            d0, p1, p2 = ps.call(name, A, B)
        except Exception as e:  # noqa
            continue   # exceptions are C10's business
        n_eval += 1
        ctx = {"i": desc["i"], "j": j}
        if not np.isfinite(d0):
            continue
        if name in SYMMETRIC:
            try:
                d1, q1, q2 = ps.call(name, B, A)
                n_eval += 1
                if abs(d1 - d0) > 2 * tolk * L:
                    add(_viol(name, kind_of("swap:scalar_differs", [(A, B, d0, p1, p2), (B, A, d1, q1, q2)]), "prim", dict(ctx, original=d0, swapped=d1)))
            except Exception as e:  # noqa
                add(_viol(name, "swap:exception:" + type(e).__name__, "prim", dict(ctx, exc=repr(e)[:200])))
        MOT = motions_for(desc)
        for m in range(len(MOT)):
            G = G_of(MOT[m])
            Lm = L      # scale of the pair, independent of the position in the world
            try:
                Am, Bm = transform_prim(A, G), transform_prim(B, G)
                dm, m1, m2 = ps.call(name, Am, Bm)
                n_eval += 1
            except Exception as e:  # noqa
                add(_viol(name, "motion:exception:" + type(e).__name__, "prim", dict(ctx, motion=MOT[m], exc=repr(e)[:200])))
                continue
            nontriv += 1 if MOT[m][0] != 0 else 0
            if not np.isfinite(dm) or abs(dm - d0) > 2 * tolk * Lm:
                add(_viol(name, kind_of("motion:scalar_differs", [(A, B, d0, p1, p2), (Am, Bm, dm, m1, m2)]), "prim",
                          dict(ctx, motion=MOT[m], original=d0, transformed=dm, tol=2 * tolk * Lm)))
        for k in (0.25, 4.0, 100.0):
            feats = [x for x in (A.min_feature(), B.min_feature()) if x is not None]
            if max(A.size(), B.size()) * k > 1.01e2 or (feats and min(feats) * k < 0.2) or L * k > 1.2e3:
                continue
            try:
                Ak, Bk = transform_prim(A, np.eye(4), k), transform_prim(B, np.eye(4), k)
                dk, k1, k2 = ps.call(name, Ak, Bk)
                n_eval += 1
            except Exception as e:  # noqa
                add(_viol(name, "scale:exception:" + type(e).__name__, "prim", dict(ctx, scale=k, exc=repr(e)[:200])))
                continue
            if not np.isfinite(dk) or abs(dk - d0 * k) > 2 * tolk * max(1.0, L * k):
                add(_viol(name, kind_of("scale:scalar_differs", [(A, B, d0, p1, p2), (Ak, Bk, dk, k1, k2)]), "prim", dict(ctx, scale=k, original=d0, transformed=dk)))
    return {"viol": viol, "n_eval": n_eval, "n_trans": n_eval, "traces": n_eval, "nontrivial_n": nontriv, "hist": {"kind": {"prim": 1}}}


def run_state(desc):
    return run_scene(desc) if desc["k"] == "scene" else run_prim(desc)
