"""C01 - gjk.gjk / gjk_distance returns feasible, consistent and optimal closest points.

States: scenes with constructed ground truth (mc/gjkscenes.py); all ordered
type pairs are fully crossed, the other coordinates are deviation-bounded.
Oracle: membership of the returned points (exact point-to-set distance of the
reference model), |a-b| = d, the separating-plane certificate
LB((b-a)/d) >= d - tol (necessary and sufficient for optimality of convex
sets), and the constructed truth (gap g exactly / overlap)."""
import itertools

import numpy as np

from .. import gjkscenes as gs
from .. import instr
from .. import scenes as sc

PROPERTY = "C01"
TECHNIQUE = ("bounded-exhaustive enumeration of scene descriptors (all 100 ordered type pairs fully crossed, other "
             "coordinates deviation-bounded) on the real gjk.gjk vs reference model with separating-plane certificate "
             "and constructed ground truth")
RULE = ("state = scene descriptor (types, sizes, orientations, offset, margins, placement, direction); one gjk.gjk run "
        "per state, observed iteration by iteration through support-function wrappers; non-trivial = degenerate scene "
        "(lattice direction, exact touching, overlap, identical, coincident anchors); distinct = distinct descriptor")
ASSUMPTIONS = ["reference model mc/refmodel/shapes.py (support values, exact point-to-set distances)",
               "tolerance 1e-5*L, L=max(1, feature sizes, centre distances)",
               "default arguments of gjk.gjk (max_distance_squared=1e5: scenes stay below 316 separation)"]
CHUNK = 150
STATE_TIMEOUT = 30.0
BOUND = 2


def warmup():
    from distance3d import gjk
    for ta in sc.TYPES:
        A, _ = sc.build(ta, 0, 0, np.zeros(3))
        B, _ = sc.build("box", 0, 0, np.array([3.0, 0.1, 0.2]))
        gjk.gjk(A, B)
        B2, _ = sc.build(ta, 0, 0, np.array([0.2, 0.1, 0.0]))
        gjk.gjk(A, B2)


def enumerate_states(tier, seed):
    states = []
    bound = 2
    for ta, tb in itertools.product(sc.TYPES, sc.TYPES):
        states += gs.enumerate_pair(ta, tb, bound)
    meta = {"bound_completed": "deviation bound %d over 9 scene coordinates for all 100 ordered type pairs" % bound,
            "exhaustive": True}
    # clipping family: large shapes far apart along the coordinate axes (the early-out for far-away colliders
    # depends on the sign and size of the first support point along the initial search direction (1,0,0))
    axes = [i for i, d in enumerate(sc.DIRS) if np.sum(np.abs(d) > 1e-12) == 1]
    clip = []
    for ta, tb in itertools.product(sc.TYPES, sc.TYPES):
        for sa, sb, pl, u in itertools.product((0, 2), (0, 2), (0, 5, 6, 7), axes):
            d = {"ta": ta, "tb": tb}
            d.update({n: 0 for n in gs.COORDS})
            d.update(sa=sa, sb=sb, pl=pl, u=u)
            clip.append(d)
    for ta, tb in itertools.product(sc.TYPES, sc.TYPES):   # the largest shapes of the domain, overlapping / touching / apart
        for pl, u in itertools.product((1, 0, 7, 9, 10), axes + [0]):
            d = {"ta": ta, "tb": tb}
            d.update({n: 0 for n in gs.COORDS})
            d.update(sa=sc.MAXSIZE[ta], sb=sc.MAXSIZE[tb], pl=pl, u=u)
            clip.append(d)
    states += clip
    meta["bound_completed"] += " + clipping family (large/unit sizes x far placements x 6 axis directions: %d scenes)" % len(clip)
    if tier == "thorough":
        # deviation bound 3 restricted to the reduced alphabets (all triples of non-default factors)
        extra = enumerate_dev3(seed, full=True, alph=MED)
        states += extra
        meta["bound_completed"] += " + complete deviation bound 3 over medium alphabets (12 orientations per body, all placements and directions: %d extra scenes)" % len(extra)
    else:
        extra = enumerate_dev3(seed, full=False)
        states += extra
        meta["bound_completed"] += " + seed-selected slice of deviation-3 scenes (%d)" % len(extra)
    return states, meta


RED = {"sa": [0, 1, 2, 3], "sb": [0, 1, 2, 3], "oa": [0, 5, 24, 26], "ob": [0, 9, 25, 27], "fa": [0, 2],
       "ma": [0, 1], "mb": [0, 1], "pl": [0, 1, 3, 7, 9, 10, 13], "u": [0, 1, 10, 20, 28]}


MED = {"sa": [0, 1, 2, 3], "sb": [0, 1, 2, 3], "oa": [0, 3, 5, 9, 13, 17, 24, 25, 28, 29, 30, 31], "ob": [0, 2, 7, 11, 16, 21, 26, 27, 28, 29, 30, 31],
       "fa": [0, 1, 2, 3], "ma": [0, 1], "mb": [0, 1], "pl": list(range(16)), "u": list(range(len(sc.DIRS)))}


def enumerate_dev3(seed, full, alph=None):
    """Triples of non-default coordinates over reduced alphabets (thorough: medium alphabets)."""
    out = []
    RED_ = alph or RED
    names = gs.COORDS
    pairs = list(itertools.product(sc.TYPES, sc.TYPES))
    n_slices = 1 if full else 25
    k = 0
    for ta, tb in pairs:
        for pos in itertools.combinations(range(len(names)), 3):
            rngs = [[v for v in RED_[names[p]] if v != 0] for p in pos]
            for vals in itertools.product(*rngs):
                k += 1
                if not full and (k % n_slices) != (seed % n_slices):
                    continue
                d = {"ta": ta, "tb": tb}
                d.update({n: 0 for n in names})
                for p, v in zip(pos, vals):
                    d[names[p]] = v
                out.append(d)
    return out


def _viol(kind, cls, detail):
    return {"kind": kind, "entry": "gjk.gjk", "sig": "gjk.gjk:%s:%s" % (kind, cls), "detail": detail}


def check_distance_result(res, s, tolk, cls, viol, entry_kind=""):
    """Shared oracle for (d, a, b) results. Returns the distance or None."""
    rA, rB, tr = s["rA"], s["rB"], s["truth"]
    L = tr["L"]
    tol = tolk * L
    d, a, b = res[0], res[1], res[2]
    if a is None or b is None or not (instr.finite(d) and instr.finite(a) and instr.finite(b)):
        viol.append(_viol(entry_kind + "nonfinite_or_clipped", cls, {"d": d, "a": a, "b": b, "truth": _tr(tr)}))
        return None
    d = float(d)
    a = np.asarray(a, dtype=float)
    b = np.asarray(b, dtype=float)
    da, db = rA.dist(a), rB.dist(b)
    if da > tol or db > tol:
        viol.append(_viol(entry_kind + "point_not_member", cls, {"d": d, "a": a, "b": b, "distA": da, "distB": db, "tol": tol, "truth": _tr(tr)}))
    ab = float(np.linalg.norm(a - b))
    if abs(ab - d) > tol:
        viol.append(_viol(entry_kind + "inconsistent", cls, {"d": d, "a": a, "b": b, "|a-b|": ab, "tol": tol, "truth": _tr(tr)}))
    if d < 0:
        viol.append(_viol(entry_kind + "negative", cls, {"d": d}))
    if tr["overlap"]:
        if d > tol:
            viol.append(_viol(entry_kind + "overlap_reported_separated", cls, {"d": d, "tol": tol, "truth": _tr(tr)}))
    else:
        g = tr["gap"]
        if abs(d - g) > tol:
            viol.append(_viol(entry_kind + ("too_large" if d > g else "too_small"), cls,
                              {"d": d, "true_distance": g, "tol": tol, "a": a, "b": b, "truth": _tr(tr)}))
        if g > tol and not d > 0:
            viol.append(_viol(entry_kind + "separated_reported_zero", cls, {"d": d, "true_distance": g}))
        # independent certificate (does not use the construction): optimality along the returned direction
        if d > tol:
            n = (b - a) / ab if ab > 0 else tr["u"]
            lb = -rB.h(-n) - rA.h(n)
            if lb < d - 2 * tol:
                viol.append(_viol(entry_kind + "not_optimal", cls, {"d": d, "certificate_lower_bound": lb, "n": n, "tol": tol}))
    return d


def _tr(tr):
    return {k: v for k, v in tr.items() if k in ("kind", "gap", "depth", "L", "overlap")}


def run_state(desc):
    from distance3d import gjk
    s = gs.build(desc)
    cls = gs.pair_class(desc)
    viol = []
    hist = {}
    ctr = instr.instrument([s["A"], s["B"]], budget=2000)
    try:
        res = gjk.gjk(s["A"], s["B"])
    except instr.BudgetExceeded:
        viol.append(_viol("no_termination_2000_support_calls", cls, {"truth": _tr(s["truth"])}))
        res = None
    except Exception as e:  # noqa
        viol.append(_viol("exception", cls, {"exc": repr(e)[:300], "truth": _tr(s["truth"])}))
        res = None
    if res is not None:
        check_distance_result(res, s, 1e-5, cls, viol)
    it = ctr.n // 2 if s["A"] is not s["B"] else ctr.n // 2
    b = "1-4" if it <= 4 else "5-16" if it <= 16 else "17-64" if it <= 64 else "65+"
    hist["iterations"] = {b: 1}
    hist["placement"] = {gs.PLACEMENTS[desc["pl"]][0]: 1}
    hist["pair"] = {desc["ta"] + "-" + desc["tb"]: 1}
    nt = [gs.nontrivial_key(desc)] if gs.is_degenerate(desc) else []
    sample = None
    if desc["pl"] == 1 and desc["u"] == 0 and desc["oa"] == 0 and desc["ob"] == 0 and res is not None and desc["sa"] == 0 and desc["sb"] == 0 \
            and desc["ta"] == "cone":
        sample = {"desc": desc, "result": {"d": res[0], "a": res[1], "b": res[2]}, "truth": _tr(s["truth"])}
    return {"viol": viol, "n_eval": 1, "n_trans": max(1, ctr.n), "traces": 1, "nontrivial": nt, "hist": hist, "sample": sample}
