"""C09 - gjk_distance_original and the Nesterov flavours agree with the true distance.

Scenes with constructed truth (sep -> g exactly, overlap -> 0).  Original GJK:
full closest-point certificate at 1e-3*L.  Nesterov (all pairs incl. every
mixed specialised/generic pair) and Nesterov-primitives (25 pairs): value
within 1e-3*L, with and without acceleration; iteration helpers must report
the count of the same run.
"""
import itertools

import numpy as np

from .. import gjkscenes as gs
from .. import instr
from .. import scenes as sc
from . import c01

PROPERTY = "C09"
TECHNIQUE = ("bounded-exhaustive scene-lattice exploration (all ordered type pairs; deviation 1 over the full alphabets and "
             "deviation 2 over reduced alphabets) executing gjk_distance_original, gjk_nesterov_accelerated(+acceleration) "
             "and the primitives variant of the real code against constructed ground truth and the separating-plane certificate")
RULE = ("state = scene descriptor; transitions = one run of each applicable algorithm/flag (3-5 per scene) + iteration "
        "helper; non-trivial = degenerate scene or mixed specialised/generic Nesterov pair; distinct = distinct descriptor")
ASSUMPTIONS = ["ground truth by construction from the reference model", "tolerance 1e-3*L"]
CHUNK = 40
STATE_TIMEOUT = 120.0
SPECIAL = ("sphere", "capsule", "box", "ellipsoid", "cylinder")


def warmup():
    from distance3d import gjk
    for ta in sc.TYPES:
        A, _ = sc.build(ta, 0, 0, np.zeros(3))
        for c in ([3.0, 0.1, 0.2], [0.2, 0.1, 0.0]):
            B, _ = sc.build("box", 0, 0, np.array(c))
            gjk.gjk_distance_original(A, B)
            gjk.gjk_nesterov_accelerated(A, B, use_nesterov_acceleration=True)
            gjk.gjk_nesterov_accelerated_distance(A, B)
            if ta in SPECIAL:
                gjk.gjk_nesterov_accelerated_primitives(A, B, use_nesterov_acceleration=True)
                gjk.gjk_nesterov_accelerated_primitives_distance(A, B)


def _red_dev2(ta, tb):
    names = gs.COORDS
    out = []
    for b in (2,):
        for pos in itertools.combinations(range(len(names)), b):
            rngs = [[v for v in c01.RED[names[p]] if v != 0] for p in pos]
            for vals in itertools.product(*rngs):
                d = {"ta": ta, "tb": tb}
                d.update({n: 0 for n in names})
                for p, v in zip(pos, vals):
                    d[names[p]] = v
                out.append(d)
    return out


def enumerate_states(tier, seed):
    states = []
    for ta, tb in itertools.product(sc.TYPES, sc.TYPES):
        if tier == "thorough":
            states += gs.enumerate_pair(ta, tb, 2)
        else:
            states += gs.enumerate_pair(ta, tb, 1)
            states += _red_dev2(ta, tb)
    # dense family for the type-coded Nesterov-primitives kernel: 25 pairs x 16x16 orientations x placements x directions
    from . import c02
    oris = [0, 3, 5, 9, 13, 17, 21, 24, 25, 26, 27, 28, 29, 30, 31, 11]
    for ta, tb in itertools.product(SPECIAL, SPECIAL):
        for oa, ob, pl, u in itertools.product(oris, oris, (0, 4, 13, 3), (0, 28, 29)):
            d = {"ta": ta, "tb": tb, "only": "primitives"}
            d.update({n: 0 for n in gs.COORDS})
            d.update(oa=oa, ob=ob, pl=pl, u=u)
            states.append(d)
    ps_ = proj_states(tier)
    states += ps_
    meta = {"bound_completed": ("projection kernels of both Nesterov modules: every ordered simplex of 2-4 distinct points of the lattice {-1,0,1}^3 "
                                "(at %d offsets) that satisfies the GJK loop invariant (%d shards); " % (3 if tier == "thorough" else 2, len(ps_))) +
                               ("deviation bound 2 over the full alphabets, all 100 ordered type pairs" if tier == "thorough" else
                                "deviation bound 1 over the full alphabets + deviation bound 2 over reduced alphabets, all 100 ordered type pairs + dense Nesterov-primitives family (25 pairs x 256 orientation pairs x 12)"),
            "exhaustive": True}
    return states, meta


def _viol(entry, kind, cls, detail):
    return {"kind": kind, "entry": entry, "sig": "%s:%s:%s" % (entry, kind, cls), "detail": detail}


def _tr(tr):
    return {k: v for k, v in tr.items() if k in ("kind", "gap", "depth", "L", "overlap")}


def _check_value(name, d, s, cls, viol):
    tr = s["truth"]
    tol = 1e-3 * tr["L"]
    if not instr.finite(d):
        viol.append(_viol(name, "nonfinite", cls, {"d": d, "truth": _tr(tr)}))
        return
    d = float(d)
    if d < 0:
        viol.append(_viol(name, "negative", cls, {"d": d}))
    if tr["overlap"]:
        if d > tol:
            viol.append(_viol(name, "overlap_reported_separated", cls, {"d": d, "tol": tol, "truth": _tr(tr)}))
    elif abs(d - tr["gap"]) > tol:
        viol.append(_viol(name, "too_large" if d > tr["gap"] else "too_small", cls,
                          {"d": d, "true_distance": tr["gap"], "tol": tol, "truth": _tr(tr)}))


# ------------------------------------------------------------------ projection kernels of the two Nesterov modules
#
# project_line_origin / project_triangle_origin / project_tetra_to_origin are case analyses that assume the GJK loop
# invariant: the previous simplex (all rows but the last) is the minimal face carrying the previous iterate v (origin
# projects into its relative interior, v != 0) and the newest point A (last row) makes strict progress, v.A < v.v
# (guaranteed by the convergence / Frank-Wolfe tests of the loop); for four points additionally the winding that
# origin_to_triangle establishes (origin on the positive side of (C-B)x(D-B) for rows D, C, B).  Every ordered lattice simplex that satisfies the
# invariant is enumerated; the kernel must return the exact minimum-norm point of the hull of all rows, and the reduced
# simplex it writes back must consist of input points whose hull contains that point.

from fractions import Fraction as _F

_LAT = [tuple(v) for v in itertools.product((-1, 0, 1), repeat=3)]
_SHIFT = [(_F(0), _F(0), _F(0)), (_F(1, 2), _F(1, 4), _F(1, 8)), (_F(3), _F(-2), _F(5, 2)), (_F(1, 2), _F(1, 2), _F(0)), (_F(1), _F(-1, 2), _F(3, 2))]


def _lat_points(lat):
    sh = _SHIFT[lat]
    return [tuple(_F(c) + sh[i] for i, c in enumerate(p)) for p in _LAT]


def proj_states(tier):
    out = []
    lats = (0, 1, 2) if tier == "thorough" else (0, 1)
    for mod in ("generic", "primitives"):
        for lat in lats:
            out.append({"k": "proj", "mod": mod, "n": 2, "lat": lat, "p0": -1})
            for i in range(27):
                out.append({"k": "proj", "mod": mod, "n": 3, "lat": lat, "p0": i})
            for i in range(27):
                for j in range(27):
                    if i != j and (tier == "thorough" or lat == 1 or mod == "generic"):
                        out.append({"k": "proj", "mod": mod, "n": 4, "lat": lat, "p0": i, "p1": j})
    return out


def run_proj(desc):
    from ..refmodel import simplex as rsx
    if desc["mod"] == "generic":
        from distance3d.gjk import _gjk_nesterov_accelerated as M
    else:
        from distance3d.gjk import _gjk_nesterov_accelerated_primitives as M
    n = desc["n"]
    fn = {2: M.project_line_origin, 3: M.project_triangle_origin, 4: M.project_tetra_to_origin}[n]
    P = _lat_points(desc["lat"])
    Pf = [tuple(float(c) for c in p) for p in P]
    name = "%s.%s" % ("nesterov" if desc["mod"] == "generic" else "nesterov_primitives", fn.__name__ if hasattr(fn, "__name__") else "project_%d" % n)
    viol, seen = [], set()
    n_eval = n_pre = 0
    fixed = [desc["p0"]] if n == 3 else [desc["p0"], desc["p1"]] if n == 4 else []
    rest_idx = [i for i in range(27) if i not in fixed]
    prev_tails = [()] if n == 3 else [(i,) for i in rest_idx] if n in (2, 4) else [()]
    if n == 3:
        prev_tails = [(i,) for i in rest_idx]
    for tail in prev_tails:
        prev_idx = tuple(fixed) + tuple(tail)
        if len(prev_idx) != n - 1:
            continue
        prev = [P[i] for i in prev_idx]
        lam = rsx.project_affine(prev)
        if lam is None or any(l <= 0 for l in lam):
            continue
        v = tuple(sum(lam[i] * prev[i][c] for i in range(len(prev))) for c in range(3))
        vv = rsx._dot(v, v)
        if vv == 0:
            continue
        if n == 4:
            # winding invariant established by origin_to_triangle: with rows (D, C, B) the origin lies on the positive side of (C-B) x (D-B)
            D_, C_, B_ = prev
            e1 = tuple(C_[i] - B_[i] for i in range(3))
            e2 = tuple(D_[i] - B_[i] for i in range(3))
            nrm = (e1[1] * e2[2] - e1[2] * e2[1], e1[2] * e2[0] - e1[0] * e2[2], e1[0] * e2[1] - e1[1] * e2[0])
            if not -rsx._dot(nrm, B_) > 0:
                continue
        for ia in range(27):
            if ia in prev_idx:
                continue
            a = P[ia]
            if not rsx._dot(v, a) < vv:
                continue
            n_pre += 1
            rows = list(prev_idx) + [ia]
            S = np.zeros((4, 3))
            for r, i in enumerate(rows):
                S[r] = Pf[i]
            S = np.ascontiguousarray(S)
            ex = rsx.min_norm([P[i] for i in rows])
            exn = float(ex[0]) ** 0.5
            n_eval += 1
            try:
                ray, slen, inside = fn(S)
            except Exception as e:  # noqa
                sig = "exception:" + type(e).__name__
                if sig not in seen:
                    seen.add(sig)
                    viol.append(_viol(name, sig, "kernel", {"rows": [Pf[i] for i in rows], "exc": repr(e)[:200]}))
                continue
            ray = np.asarray(ray, dtype=float)
            rn = float(np.linalg.norm(ray))
            bad = None
            if not np.all(np.isfinite(ray)):
                bad = "nonfinite"
            elif ex[0] == 0:
                if not (bool(inside) or rn <= 1e-12):
                    bad = "origin_in_hull_not_recognised"
            elif bool(inside):
                bad = "reports_origin_inside_but_it_is_outside"
            elif abs(rn - exn) > 1e-9 * max(1.0, exn):
                bad = "not_the_minimum_norm_point:" + ("too_small" if rn < exn else "too_large")
            else:
                slen = int(slen)
                sub = [tuple(float(c) for c in S[r]) for r in range(slen)]
                if not (1 <= slen <= 4) or any(q not in [Pf[i] for i in rows] for q in sub):
                    bad = "reduced_simplex_not_a_subset_of_the_input"
                elif float(rsx.dist_sq_to_hull([tuple(_F(c) for c in q) for q in sub], tuple(_F(float(c)) for c in ray))) > 1e-20:
                    bad = "reduced_simplex_does_not_contain_the_returned_point"
            if bad is not None and bad not in seen:
                seen.add(bad)
                viol.append(_viol(name, bad, "kernel", {"rows_oldest_first": [Pf[i] for i in rows], "returned": ray, "returned_norm": rn,
                                                        "exact_norm": exn, "simplex_len": int(slen), "inside": bool(inside)}))
    return {"viol": viol, "n_eval": n_eval, "n_trans": n_eval, "traces": n_eval, "nontrivial_n": n_eval,
            "hist": {"algo": {"kernel:" + name: n_eval}},
            "sample": {"desc": desc, "simplices_satisfying_the_invariant": n_pre} if (n == 4 and desc.get("p0") == 0 and desc.get("p1") == 13) else None}


def run_state(desc):
    if desc.get("k") == "proj":
        return run_proj(desc)
    from distance3d import gjk
    s = gs.build(desc)
    A, B = s["A"], s["B"]
    cls = gs.pair_class(desc)
    kind = gs.PLACEMENTS[desc["pl"]][0]
    ta = desc["ta"]
    tb = ta if kind in ("identical", "same") else desc["tb"]
    ma = desc["ma"]
    mb = ma if kind in ("identical", "same") else desc["mb"]
    viol, hist = [], {"algo": {}}
    n_eval = 0

    meshes = [c for c in (A, getattr(A, "collider", None), B, getattr(B, "collider", None)) if hasattr(c, "_support_function")]
    cache0 = [m._support_function.first_idx for m in meshes]

    def guarded(name, fn, budget=3000):
        nonlocal n_eval
        # MeshGraph keeps the last support vertex as hidden state; start every algorithm from the same
        # cache state so that "helper == full call" compares the same run (ties may otherwise be broken differently)
        for m, c0 in zip(meshes, cache0):
            m._support_function.first_idx = c0
        n_eval += 1
        hist["algo"][name] = hist["algo"].get(name, 0) + 1
        instr.instrument([A, B], budget=budget)
        try:
            return fn()
        except instr.BudgetExceeded:
            viol.append(_viol(name, "no_termination_%d_support_calls" % budget, cls, {"truth": _tr(s["truth"])}))
        except Exception as e:  # noqa
            viol.append(_viol(name, "exception:" + type(e).__name__, cls, {"exc": repr(e)[:300], "truth": _tr(s["truth"])}))
        finally:
            instr.uninstrument([A, B])
        return None

    only_prim = desc.get("only") == "primitives"
    # ---- original GJK: full certificate
    r = None if only_prim else guarded("gjk_distance_original", lambda: gjk.gjk_distance_original(A, B))
    if r is not None:
        v2 = []
        c01.check_distance_result(r, s, 1e-3, cls, v2)
        for v in v2:
            v["entry"] = "gjk_distance_original"
            v["sig"] = v["sig"].replace("gjk.gjk:", "gjk_distance_original:")
            viol.append(v)
        if not (isinstance(r[4], (int, np.integer)) and r[4] >= 1):
            viol.append(_viol("gjk_distance_original", "iterations_field", cls, {"iterations": r[4]}))
    # ---- Nesterov, generic entry
    for acc in (() if only_prim else (False, True)):
        name = "nesterov" + ("_acc" if acc else "")
        r = guarded(name, lambda: gjk.gjk_nesterov_accelerated(A, B, use_nesterov_acceleration=acc))
        if r is not None:
            _check_value(name, max(r[1], 0.0), s, cls, viol)
            if not acc:
                d2 = guarded("nesterov_distance", lambda: gjk.gjk_nesterov_accelerated_distance(A, B))
                it2 = guarded("nesterov_iterations", lambda: gjk._gjk_nesterov_accelerated.gjk_nesterov_accelerated_iterations(A, B))
                if d2 is not None and instr.finite(d2) and instr.finite(r[1]) and abs(d2 - max(r[1], 0.0)) > 0:
                    viol.append(_viol("nesterov_distance", "differs_from_full_call", cls, {"d": d2, "full": r[1]}))
                if it2 is not None and it2 != r[3]:
                    viol.append(_viol("nesterov_iterations", "differs_from_full_call", cls, {"it": it2, "full": r[3]}))
    # ---- primitives
    if ta in SPECIAL and tb in SPECIAL and not ma and not mb:
        for acc in (False, True):
            name = "nesterov_primitives" + ("_acc" if acc else "")
            r = guarded(name, lambda: gjk.gjk_nesterov_accelerated_primitives(A, B, use_nesterov_acceleration=acc))
            if r is not None:
                _check_value(name, max(r[1], 0.0), s, cls, viol)
                if not acc:
                    d2 = guarded("nesterov_primitives_distance", lambda: gjk.gjk_nesterov_accelerated_primitives_distance(A, B))
                    it2 = guarded("nesterov_primitives_iterations",
                                  lambda: gjk._gjk_nesterov_accelerated_primitives.gjk_nesterov_accelerated_primitives_iterations(A, B))
                    if d2 is not None and instr.finite(d2) and instr.finite(r[1]) and abs(d2 - max(r[1], 0.0)) > 0:
                        viol.append(_viol("nesterov_primitives_distance", "differs_from_full_call", cls, {"d": d2, "full": r[1]}))
                    if it2 is not None and it2 != r[3]:
                        viol.append(_viol("nesterov_primitives_iterations", "differs_from_full_call", cls, {"it": it2, "full": r[3]}))
    mixed = (ta in SPECIAL and not ma) != (tb in SPECIAL and not mb)
    nt = [gs.nontrivial_key(desc)] if (gs.is_degenerate(desc) or mixed) else []
    hist["mixed_specialised_generic"] = {str(mixed): 1}
    sample = None
    if desc["pl"] == 4 and desc["ta"] == "sphere" and desc["tb"] == "cone" and desc["oa"] == 0 and desc["ob"] == 0 and desc["u"] == 0 \
            and desc["sa"] == 0 and desc["sb"] == 0:
        sample = {"desc": desc, "truth": _tr(s["truth"])}
    return {"viol": viol, "n_eval": n_eval, "n_trans": n_eval, "traces": n_eval, "nontrivial": nt, "hist": hist, "sample": sample}
