"""C09 - gjk_distance_original and the Nesterov flavours agree with the true distance.

Scenes with constructed truth (sep -> g exactly, overlap -> 0).  Original GJK:
full closest-point certificate at 1e-3*L.  Nesterov (all pairs incl. every
mixed specialised/generic pair) and Nesterov-primitives (25 pairs): value
within 1e-3*L, with and without acceleration; iteration helpers must report
the count of the same run.
"""
import itertools

import numpy as np

from .. import gjkscenes as gs
from .. import instr
from .. import scenes as sc
from . import c01

PROPERTY = "C09"
TECHNIQUE = ("bounded-exhaustive scene-lattice exploration (all ordered type pairs; deviation 1 over the full alphabets and "
             "deviation 2 over reduced alphabets) executing gjk_distance_original, gjk_nesterov_accelerated(+acceleration) "
             "and the primitives variant of the real code against constructed ground truth and the separating-plane certificate")
RULE = ("state = scene descriptor; transitions = one run of each applicable algorithm/flag (3-5 per scene) + iteration "
        "helper; non-trivial = degenerate scene or mixed specialised/generic Nesterov pair; distinct = distinct descriptor")
ASSUMPTIONS = ["ground truth by construction from the reference model", "tolerance 1e-3*L"]
CHUNK = 40
STATE_TIMEOUT = 120.0
SPECIAL = ("sphere", "capsule", "box", "ellipsoid", "cylinder")


def warmup():
    from distance3d import gjk
    for ta in sc.TYPES:
        A, _ = sc.build(ta, 0, 0, np.zeros(3))
        for c in ([3.0, 0.1, 0.2], [0.2, 0.1, 0.0]):
            B, _ = sc.build("box", 0, 0, np.array(c))
            gjk.gjk_distance_original(A, B)
            gjk.gjk_nesterov_accelerated(A, B, use_nesterov_acceleration=True)
            gjk.gjk_nesterov_accelerated_distance(A, B)
            if ta in SPECIAL:
                gjk.gjk_nesterov_accelerated_primitives(A, B, use_nesterov_acceleration=True)
                gjk.gjk_nesterov_accelerated_primitives_distance(A, B)


def _red_dev2(ta, tb):
    names = gs.COORDS
    out = []
    for b in (2,):
        for pos in itertools.combinations(range(len(names)), b):
            rngs = [[v for v in c01.RED[names[p]] if v != 0] for p in pos]
            for vals in itertools.product(*rngs):
                d = {"ta": ta, "tb": tb}
                d.update({n: 0 for n in names})
                for p, v in zip(pos, vals):
                    d[names[p]] = v
                out.append(d)
    return out


def enumerate_states(tier, seed):
    states = []
    for ta, tb in itertools.product(sc.TYPES, sc.TYPES):
        if tier == "thorough":
            states += gs.enumerate_pair(ta, tb, 2)
        else:
            states += gs.enumerate_pair(ta, tb, 1)
            states += _red_dev2(ta, tb)
    # dense family for the type-coded Nesterov-primitives kernel: 25 pairs x 16x16 orientations x placements x directions
    from . import c02
    oris = [0, 3, 5, 9, 13, 17, 21, 24, 25, 26, 27, 28, 29, 30, 31, 11]
    for ta, tb in itertools.product(SPECIAL, SPECIAL):
        for oa, ob, pl, u in itertools.product(oris, oris, (0, 4, 13, 3), (0, 28, 29)):
            d = {"ta": ta, "tb": tb, "only": "primitives"}
            d.update({n: 0 for n in gs.COORDS})
            d.update(oa=oa, ob=ob, pl=pl, u=u)
            states.append(d)
    meta = {"bound_completed": ("deviation bound 2 over the full alphabets, all 100 ordered type pairs" if tier == "thorough" else
                                "deviation bound 1 over the full alphabets + deviation bound 2 over reduced alphabets, all 100 ordered type pairs + dense Nesterov-primitives family (25 pairs x 256 orientation pairs x 12)"),
            "exhaustive": True}
    return states, meta


def _viol(entry, kind, cls, detail):
    return {"kind": kind, "entry": entry, "sig": "%s:%s:%s" % (entry, kind, cls), "detail": detail}


def _tr(tr):
    return {k: v for k, v in tr.items() if k in ("kind", "gap", "depth", "L", "overlap")}


def _check_value(name, d, s, cls, viol):
    tr = s["truth"]
    tol = 1e-3 * tr["L"]
    if not instr.finite(d):
        viol.append(_viol(name, "nonfinite", cls, {"d": d, "truth": _tr(tr)}))
        return
    d = float(d)
    if d < 0:
        viol.append(_viol(name, "negative", cls, {"d": d}))
    if tr["overlap"]:
        if d > tol:
            viol.append(_viol(name, "overlap_reported_separated", cls, {"d": d, "tol": tol, "truth": _tr(tr)}))
    elif abs(d - tr["gap"]) > tol:
        viol.append(_viol(name, "too_large" if d > tr["gap"] else "too_small", cls,
                          {"d": d, "true_distance": tr["gap"], "tol": tol, "truth": _tr(tr)}))


def run_state(desc):
    from distance3d import gjk
    s = gs.build(desc)
    A, B = s["A"], s["B"]
    cls = gs.pair_class(desc)
    kind = gs.PLACEMENTS[desc["pl"]][0]
    ta = desc["ta"]
    tb = ta if kind in ("identical", "same") else desc["tb"]
    ma = desc["ma"]
    mb = ma if kind in ("identical", "same") else desc["mb"]
    viol, hist = [], {"algo": {}}
    n_eval = 0

    meshes = [c for c in (A, getattr(A, "collider", None), B, getattr(B, "collider", None)) if hasattr(c, "_support_function")]
    cache0 = [m._support_function.first_idx for m in meshes]

    def guarded(name, fn, budget=3000):
        nonlocal n_eval
        # MeshGraph keeps the last support vertex as hidden state; start every algorithm from the same
        # cache state so that "helper == full call" compares the same run (ties may otherwise be broken differently)
        for m, c0 in zip(meshes, cache0):
            m._support_function.first_idx = c0
        n_eval += 1
        hist["algo"][name] = hist["algo"].get(name, 0) + 1
        instr.instrument([A, B], budget=budget)
        try:
            return fn()
        except instr.BudgetExceeded:
            viol.append(_viol(name, "no_termination_%d_support_calls" % budget, cls, {"truth": _tr(s["truth"])}))
        except Exception as e:  # noqa
            viol.append(_viol(name, "exception:" + type(e).__name__, cls, {"exc": repr(e)[:300], "truth": _tr(s["truth"])}))
        finally:
            instr.uninstrument([A, B])
        return None

    only_prim = desc.get("only") == "primitives"
    # ---- original GJK: full certificate
    r = None if only_prim else guarded("gjk_distance_original", lambda: gjk.gjk_distance_original(A, B))
    if r is not None:
        v2 = []
        c01.check_distance_result(r, s, 1e-3, cls, v2)
        for v in v2:
            v["entry"] = "gjk_distance_original"
            v["sig"] = v["sig"].replace("gjk.gjk:", "gjk_distance_original:")
            viol.append(v)
        if not (isinstance(r[4], (int, np.integer)) and r[4] >= 1):
            viol.append(_viol("gjk_distance_original", "iterations_field", cls, {"iterations": r[4]}))
    # ---- Nesterov, generic entry
    for acc in (() if only_prim else (False, True)):
        name = "nesterov" + ("_acc" if acc else "")
        r = guarded(name, lambda: gjk.gjk_nesterov_accelerated(A, B, use_nesterov_acceleration=acc))
        if r is not None:
            _check_value(name, max(r[1], 0.0), s, cls, viol)
            if not acc:
                d2 = guarded("nesterov_distance", lambda: gjk.gjk_nesterov_accelerated_distance(A, B))
                it2 = guarded("nesterov_iterations", lambda: gjk._gjk_nesterov_accelerated.gjk_nesterov_accelerated_iterations(A, B))
                if d2 is not None and instr.finite(d2) and instr.finite(r[1]) and abs(d2 - max(r[1], 0.0)) > 0:
                    viol.append(_viol("nesterov_distance", "differs_from_full_call", cls, {"d": d2, "full": r[1]}))
                if it2 is not None and it2 != r[3]:
                    viol.append(_viol("nesterov_iterations", "differs_from_full_call", cls, {"it": it2, "full": r[3]}))
    # ---- primitives
    if ta in SPECIAL and tb in SPECIAL and not ma and not mb:
        for acc in (False, True):
            name = "nesterov_primitives" + ("_acc" if acc else "")
            r = guarded(name, lambda: gjk.gjk_nesterov_accelerated_primitives(A, B, use_nesterov_acceleration=acc))
            if r is not None:
                _check_value(name, max(r[1], 0.0), s, cls, viol)
                if not acc:
                    d2 = guarded("nesterov_primitives_distance", lambda: gjk.gjk_nesterov_accelerated_primitives_distance(A, B))
                    it2 = guarded("nesterov_primitives_iterations",
                                  lambda: gjk._gjk_nesterov_accelerated_primitives.gjk_nesterov_accelerated_primitives_iterations(A, B))
                    if d2 is not None and instr.finite(d2) and instr.finite(r[1]) and abs(d2 - max(r[1], 0.0)) > 0:
                        viol.append(_viol("nesterov_primitives_distance", "differs_from_full_call", cls, {"d": d2, "full": r[1]}))
                    if it2 is not None and it2 != r[3]:
                        viol.append(_viol("nesterov_primitives_iterations", "differs_from_full_call", cls, {"it": it2, "full": r[3]}))
    mixed = (ta in SPECIAL and not ma) != (tb in SPECIAL and not mb)
    nt = [gs.nontrivial_key(desc)] if (gs.is_degenerate(desc) or mixed) else []
    hist["mixed_specialised_generic"] = {str(mixed): 1}
    sample = None
    if desc["pl"] == 4 and desc["ta"] == "sphere" and desc["tb"] == "cone" and desc["oa"] == 0 and desc["ob"] == 0 and desc["u"] == 0 \
            and desc["sa"] == 0 and desc["sb"] == 0:
        sample = {"desc": desc, "truth": _tr(s["truth"])}
    return {"viol": viol, "n_eval": n_eval, "n_trans": n_eval, "traces": n_eval, "nontrivial": nt, "hist": hist, "sample": sample}
