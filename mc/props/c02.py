"""C02 - boolean collision tests never miss a clear overlap nor report a clear gap.

Only scenes with constructed ground truth are judged: separation g >= delta
(two parallel supporting planes) or a common point at depth >= delta in both
shapes; delta = 1e-3*L.  Nothing is asserted inside the grazing band.
All five tests (jolt, libccd, MPR, Nesterov with and without acceleration,
Nesterov-primitives on its five types with and without acceleration).
"""
import itertools

import numpy as np

from .. import gjkscenes as gs
from .. import instr
from .. import scenes as sc

PROPERTY = "C02"
TECHNIQUE = ("bounded-exhaustive scene-lattice exploration (all ordered type pairs x deviation-bounded sizes, orientations, "
             "offsets, margins, placements, directions) executing all boolean narrow-phase tests of the real code against "
             "constructed ground truth (certified gap / certified common point depth)")
RULE = ("state = scene descriptor with certified truth (gap >= delta or common-point depth >= delta, delta=1e-3*L); scenes "
        "inside the grazing band are generated but not judged (counted as 'unjudged'); transitions = one call of each "
        "applicable boolean test (up to 7 per scene); non-trivial = degenerate scene (lattice direction, coincident anchors, "
        "identical objects) or a mixed specialised/generic Nesterov pair; distinct = distinct descriptor")
ASSUMPTIONS = ["ground truth by construction from the reference model (mc/refmodel/shapes.py)",
               "delta = 1e-3*L, L = max(1, feature sizes, centre distances)"]
CHUNK = 100
STATE_TIMEOUT = 240.0   # a lattice-polytope shard is 10-35 s of work (more on a loaded machine); scene states take milliseconds

PRIM = ("sphere", "capsule", "box", "ellipsoid", "cylinder")
PLS = [0, 5, 14, 15, 7, 8, 9, 11, 12]   # placements with a chance of certified truth (gaps 0.02, 0.1, 300 are exercised by C01; thorough adds them)


def warmup():
    from distance3d import gjk, mpr
    for ta in sc.TYPES:
        A, _ = sc.build(ta, 0, 0, np.zeros(3))
        for c in ([3.0, 0.1, 0.2], [0.2, 0.1, 0.0]):
            B, _ = sc.build("box", 0, 0, np.array(c))
            gjk.gjk_intersection(A, B)
            gjk.gjk_intersection_libccd(A, B)
            mpr.mpr_intersection(A, B)
            gjk.gjk_nesterov_accelerated_intersection(A, B)
            gjk.gjk_nesterov_accelerated(A, B, use_nesterov_acceleration=True)
            if ta in PRIM:
                gjk.gjk_nesterov_accelerated_primitives_intersection(A, B)
                gjk.gjk_nesterov_accelerated_primitives(A, B, use_nesterov_acceleration=True)


# states of the thorough tier (three deviations) that carry a recorded finding: also part of the quick tier, so that the finding is
# re-examined (and its KNOWN-FINDING line printed) on every run
REGRESSION = [
    {'ta': 'cone', 'tb': 'box', 'sa': 0, 'sb': 0, 'oa': 9, 'ob': 0, 'fa': 0, 'ma': 0, 'mb': 0, 'pl': 14, 'u': 2},
    {'ta': 'box', 'tb': 'cone', 'sa': 0, 'sb': 0, 'oa': 0, 'ob': 11, 'fa': 0, 'ma': 0, 'mb': 0, 'pl': 14, 'u': 2},
]


def enumerate_states(tier, seed):
    states = [dict(d) for d in REGRESSION]
    for ta, tb in itertools.product(sc.TYPES, sc.TYPES):
        for d in gs.enumerate_pair(ta, tb, 2):
            if d["pl"] in PLS or (tier == "thorough" and d["pl"] in (4, 6, 13)):
                states.append(d)
    meta = {"bound_completed": "deviation bound 2 over 9 scene coordinates, all 100 ordered type pairs, placements with "
                               "certifiable truth (9 of 16 in quick, 12 in thorough)", "exhaustive": True}
    # small-scale overlapping family (sizes ~1e-2, certified depth >= delta): absolute tolerances inside the tests bite here
    small = []
    for ta, tb in itertools.product(sc.TYPES, sc.TYPES):
        for pl, u, oa, ob in itertools.product((7, 8, 9), (0, 1, 14), (0, 24), (0, 26)):
            d = {"ta": ta, "tb": tb}
            d.update({n: 0 for n in gs.COORDS})
            d.update(sa=1, sb=1, pl=pl, u=u, oa=oa, ob=ob)
            small.append(d)
    states += small
    meta["bound_completed"] += " + small-scale overlapping family (%d scenes)" % len(small)
    # large-scale family (sizes ~1e2): overlapping and separated along the coordinate axes (first support point far from the origin)
    large = []
    axes = [i for i, d in enumerate(sc.DIRS) if np.sum(np.abs(d) > 1e-12) == 1]
    for ta, tb in itertools.product(sc.TYPES, sc.TYPES):
        for pl, u in itertools.product((7, 8, 9, 5, 15), axes + [0]):
            d = {"ta": ta, "tb": tb}
            d.update({n: 0 for n in gs.COORDS})
            d.update(sa=2, sb=2, pl=pl, u=u)
            large.append(d)
        # the largest shapes of the domain (radii 1e2) overlapping with their anchors up to 0.3*depth apart and 'deep'
        zx = [i for i, R in enumerate(sc.CUBE_ROTS) if np.allclose(R[:, 2], [1, 0, 0])][0]   # long axis along world x
        for pl, u, (oa, ob) in itertools.product((7, 9, 10), axes + [0, 28], ((0, 0), (zx, zx), (24, 26), (zx, 0))):
            d = {"ta": ta, "tb": tb}
            d.update({n: 0 for n in gs.COORDS})
            d.update(sa=sc.MAXSIZE[ta], sb=sc.MAXSIZE[tb], pl=pl, u=u, oa=oa, ob=ob)
            large.append(d)
    states += large
    meta["bound_completed"] += " + large-scale family (%d scenes)" % len(large)
    # dense family for the type-coded Nesterov-primitives kernel (its own simplex projection code): 25 pairs x 16x16 orientations
    dense = []
    oris = [0, 3, 5, 9, 13, 17, 21, 24, 25, 26, 27, 28, 29, 30, 31, 11]
    for ta, tb in itertools.product(PRIM, PRIM):
        for oa, ob, pl, u in itertools.product(oris, oris, (0, 13, 9, 16, 17, 18), (0, 28, 29)):
            d = {"ta": ta, "tb": tb, "only": "primitives"}
            d.update({n: 0 for n in gs.COORDS})
            d.update(oa=oa, ob=ob, pl=pl, u=u)
            dense.append(d)
    states += dense
    meta["bound_completed"] += " + dense Nesterov-primitives family (%d scenes)" % len(dense)
    if tier == "thorough":
        from . import c01
        extra = [d for d in c01.enumerate_dev3(seed, full=True, alph=c01.MED) if d["pl"] in PLS or d["pl"] in (4, 6, 13)]
        states += extra
        meta["bound_completed"] += " + complete deviation bound 3 over medium alphabets (%d)" % len(extra)
    else:
        from . import c01
        extra = [d for d in c01.enumerate_dev3(seed, full=False) if d["pl"] in PLS]
        states += extra
        meta["bound_completed"] += " + seed slice of deviation-3 scenes (%d)" % len(extra)
    lat, n_tets, n_perm = lat_states(tier, seed)
    # a lattice shard is ~10 s of work: spread them over the state list so that every chunk holds at most one
    step = max(1, len(states) // len(lat))
    merged, li = [], 0
    for i, d in enumerate(states):
        if i % step == 0 and li < len(lat):
            merged.append(lat[li]); li += 1
        merged.append(d)
    states = merged + lat[li:]
    meta["bound_completed"] += (" + lattice-polytope family: all %d non-degenerate tetrahedra of {-1,0,1}^3 (vertex hull and mesh, %d vertex orders in total) x %d partner polytopes x %d centres, both argument orders (%d shards)" % (n_tets, n_perm, len(LAT_B), len(lat[0]["cs"]), len(lat)))
    return states, meta


# ------------------------------------------------------------------ lattice-polytope family (exact ties, every tetrahedron)
#
# libccd's do_simplex cascade and MPR's portal discovery / refinement are case analyses on signs of exact products.  Scenes of the
# lattice above reach their tie branches only where an alphabet letter happens to produce one.  This family reaches them by
# construction: collider A is EVERY non-degenerate tetrahedron with vertices in {-1,0,1}^3 (as a vertex hull and as a mesh, in
# several vertex orders: the first vertex and argmax ties depend on the order), collider B is one of a few fixed polytopes (unit box,
# small box, lattice tetrahedron) at centres chosen so that faces, edges and vertices are exactly aligned, exactly touching
# lattice planes, or in general position.  All data are dyadic, so the sign tests of the code are decided on exact values.
# Truth: a witness point at depth >= delta in both polytopes (half-space slacks of the facets) or a separating axis with gap >=
# delta (SAT axes: facet normals and edge-edge cross products); anything else is counted as unjudged.

_LATP = [tuple(float(c) for c in v) for v in itertools.product((-1, 0, 1), repeat=3)]
LAT_B = [("box", (1.0, 1.0, 1.0)), ("box", (0.5, 0.25, 2.0)), ("tet", ((0, 0, 0), (1, 0, 0), (0, 1, 0), (0, 0, 1))),
         ("tet", ((-1, -1, -1), (1, 1, -1), (1, -1, 1), (-1, 1, 1)))]
LAT_C = [(0.0, 0.0, 0.0), (0.5, 0.5, 0.5), (1.5, 0.0, 0.0), (0.25, 0.125, 0.0625), (1.0, 1.0, 1.0), (2.5, 0.0, 0.0), (0.0, -1.25, 1.25),
         (-2.0, -2.0, -2.0), (0.75, 0.75, 0.0), (1.5, 1.5, 1.5)]
_PERMS4 = list(itertools.permutations(range(4)))


def _lat_tets():
    out = []
    for idx in itertools.combinations(range(27), 4):
        V = np.array([_LATP[i] for i in idx])
        if abs(np.linalg.det(V[1:] - V[0])) > 0.5:
            out.append(idx)
    return out


def lat_states(tier, seed):
    tets = _lat_tets()
    n_sh = 64
    out = []
    if tier == "thorough":
        plan = [(kind, pm, list(range(len(LAT_C)))) for kind in ("hull", "mesh") for pm in (0, 5, 9, 14, 18, 23)]
    else:
        # quick: every tetrahedron, one seed-selected vertex order per collider kind, the first five centres
        plan = [("hull", (7 * seed) % 24, list(range(5))), ("mesh", (7 * seed + 23) % 24, list(range(5)))]
    for sh in range(n_sh):
        for kind, pm, cs in plan:
            out.append({"k": "lat", "sh": sh, "nsh": n_sh, "kind": kind, "pm": pm, "cs": cs})
    perms = sorted({pm for _, pm, _ in plan})
    return out, len(tets), len(perms)


def _facets(V):
    """outward unit normals and offsets of the facets of the convex hull of V (small polytopes, brute force over triples)"""
    n = len(V)
    N, O = [], []
    for i, j, k in itertools.combinations(range(n), 3):
        nr = np.cross(V[j] - V[i], V[k] - V[i])
        ln = np.linalg.norm(nr)
        if ln < 1e-12:
            continue
        nr = nr / ln
        s = (V - V[i]) @ nr
        if np.all(s <= 1e-12):
            N.append(nr); O.append(float(V[i] @ nr))
        elif np.all(s >= -1e-12):
            N.append(-nr); O.append(float(-(V[i] @ nr)))
    return np.array(N), np.array(O)


def _edges(V, N, O):
    E = []
    for i, j in itertools.combinations(range(len(V)), 2):
        on = (np.abs(N @ V[i] - O) < 1e-9) & (np.abs(N @ V[j] - O) < 1e-9)
        if np.sum(on) >= 1:
            E.append(V[j] - V[i])
    return np.array(E)


_BCACHE = {}


def _lat_b(ib, ic):
    key = (ib, ic)
    if key not in _BCACHE:
        kind, par = LAT_B[ib]
        c = np.array(LAT_C[ic])
        if kind == "box":
            h = 0.5 * np.array(par)
            V = np.array([[sx * h[0], sy * h[1], sz * h[2]] for sx in (-1, 1) for sy in (-1, 1) for sz in (-1, 1)]) + c
        else:
            V = np.array(par, dtype=float) + c
        N, O = _facets(V)
        _BCACHE[key] = (kind, par, c, V, N, O, _edges(V, N, O))
    return _BCACHE[key]


def _lat_collider_b(ib, ic):
    from distance3d import colliders
    kind, par, c, V, N, O, E = _lat_b(ib, ic)
    if kind == "box":
        T = np.eye(4)
        T[:3, 3] = c
        return colliders.Box(T, np.array(par, dtype=float))
    return colliders.ConvexHullVertices(np.ascontiguousarray(V))


_TET_TRI = np.array([[0, 1, 2], [0, 1, 3], [0, 2, 3], [1, 2, 3]])


def run_lat(desc):
    from distance3d import colliders, gjk, mpr
    tets = _lat_tets()
    mine = tets[desc["sh"]::desc["nsh"]]
    perm = _PERMS4[desc["pm"]]
    tests = [("gjk_intersection", gjk.gjk_intersection), ("gjk_intersection_libccd", gjk.gjk_intersection_libccd),
             ("mpr_intersection", mpr.mpr_intersection), ("nesterov_intersection", gjk.gjk_nesterov_accelerated_intersection),
             ("nesterov_intersection_acc", lambda a, b: gjk.gjk_nesterov_accelerated(a, b, use_nesterov_acceleration=True)[0])]
    viol, seen = [], set()
    n_eval = n_unj = n_ov = n_sep = 0
    delta = 1e-3 * 4.0   # L = max(1, vertex spread 2*sqrt(3), centre distance <= 3.5) <= 4: one delta for the whole family (conservative)
    for idx in mine:
        VA = np.ascontiguousarray(np.array([_LATP[idx[p]] for p in perm]))
        NA, OA = _facets(VA)
        EA = _edges(VA, NA, OA)
        for ib in range(len(LAT_B)):
            for ic in desc["cs"]:
                kind, par, c, VB, NB, OB, EB = _lat_b(ib, ic)
                # separating axis with the largest gap
                C = np.cross(EA[:, None, :], EB[None, :, :]).reshape(-1, 3)
                ln = np.linalg.norm(C, axis=1)
                C = C[ln > 1e-9] / ln[ln > 1e-9][:, None]
                ax = np.vstack([NA, NB, C, -C])
                gap = float(np.max((VB @ ax.T).min(axis=0) - (VA @ ax.T).max(axis=0)))
                gap2 = float(np.max((VA @ ax.T).min(axis=0) - (VB @ ax.T).max(axis=0)))
                gap = max(gap, gap2)
                expect = None
                if gap >= delta:
                    expect = False
                elif gap < 0:
                    # witness candidates: vertices' means, centres, and the points of the quarter lattice near both centres
                    cand = [VA.mean(axis=0), VB.mean(axis=0), 0.5 * (VA.mean(axis=0) + VB.mean(axis=0))]
                    cand += [0.5 * (a + b) for a in VA for b in VB]
                    cand += [(VA.mean(axis=0) * w + VB.mean(axis=0) * (4 - w)) / 4.0 for w in (1, 3)]
                    W = np.array(cand)
                    dA = (OA[None, :] - W @ NA.T).min(axis=1)
                    dB = (OB[None, :] - W @ NB.T).min(axis=1)
                    if float(np.max(np.minimum(dA, dB))) >= delta:
                        expect = True
                if expect is None:
                    n_unj += 1
                    continue
                if expect:
                    n_ov += 1
                else:
                    n_sep += 1
                if desc["kind"] == "hull":
                    A = colliders.ConvexHullVertices(VA)
                else:
                    A = colliders.MeshGraph(np.eye(4), VA, _TET_TRI)
                B = _lat_collider_b(ib, ic)
                for order in (0, 1):
                    X, Y = (A, B) if order == 0 else (B, A)
                    for name, fn in tests:
                        n_eval += 1
                        ctr = instr.instrument([X, Y], budget=4000)
                        try:
                            r = bool(fn(X, Y))
                            bad = None if r == expect else ("missed_overlap" if expect else "phantom_contact")
                        except instr.BudgetExceeded:
                            bad = "no_termination_4000_support_calls"
                        except Exception as e:  # noqa
                            bad = "exception:" + type(e).__name__
                        finally:
                            instr.uninstrument([X, Y])
                        if bad is not None:
                            sig = (name, bad)
                            if sig not in seen or len(viol) < 6:
                                seen.add(sig)
                                viol.append(_viol(name, bad, "lattice:%s-%s" % (desc["kind"], kind),
                                                  {"tet_vertices": VA.tolist(), "B": [kind, list(map(list, par)) if kind == "tet" else list(par), list(c)],
                                                   "order": "A,B" if order == 0 else "B,A", "expected": expect, "gap": gap, "delta": delta}))
    return {"viol": viol, "n_eval": n_eval, "n_trans": n_eval, "traces": n_eval, "nontrivial_n": n_ov + n_sep,
            "hist": {"judged": {"lattice_overlap": n_ov, "lattice_separated": n_sep, "lattice_unjudged": n_unj}},
            "sample": {"desc": desc, "tetrahedra_in_shard": len(mine), "judged_overlap": n_ov, "judged_separated": n_sep, "unjudged": n_unj}
            if (desc["sh"] == 0 and desc["pm"] == 0 and desc["kind"] == "hull") else None}


def _viol(entry, kind, cls, detail):
    return {"kind": kind, "entry": entry, "sig": "%s:%s:%s" % (entry, kind, cls), "detail": detail}


def tests_for(desc):
    from distance3d import gjk, mpr
    t = [("gjk_intersection", lambda a, b: gjk.gjk_intersection(a, b)),
         ("gjk_intersection_libccd", lambda a, b: gjk.gjk_intersection_libccd(a, b)),
         ("mpr_intersection", lambda a, b: mpr.mpr_intersection(a, b)),
         ("nesterov_intersection", lambda a, b: gjk.gjk_nesterov_accelerated_intersection(a, b)),
         ("nesterov_intersection_acc", lambda a, b: gjk.gjk_nesterov_accelerated(a, b, use_nesterov_acceleration=True)[0])]
    if desc["ta"] in PRIM and desc["tb"] in PRIM and not desc["ma"] and not desc["mb"]:
        t.append(("nesterov_primitives_intersection", lambda a, b: gjk.gjk_nesterov_accelerated_primitives_intersection(a, b)))
        t.append(("nesterov_primitives_intersection_acc",
                  lambda a, b: gjk.gjk_nesterov_accelerated_primitives(a, b, use_nesterov_acceleration=True)[0]))
    return t


def scale_class(s):
    m = max(s["rA"].size(), s["rB"].size())
    n = min(s["rA"].size(), s["rB"].size())
    return "small" if n < 0.1 else "large" if m > 10 else "unit"


def run_state(desc):
    if desc.get("k") == "lat":
        return run_lat(desc)
    s = gs.build(desc)
    tr = s["truth"]
    L = tr["L"]
    delta = 1e-3 * L
    if tr["overlap"] is None:
        judged, expect = False, None
    elif tr["overlap"]:
        judged = tr["depth"] >= delta and tr["depthA"] >= delta and tr["depthB"] >= delta
        expect = True
    else:
        judged = tr["gap"] >= delta
        expect = False
    cls = gs.pair_class(desc)
    viol, hist = [], {}
    n_eval = 0
    if not judged:
        return {"viol": [], "n_eval": 0, "n_trans": 0, "traces": 0, "hist": {"judged": {"unjudged_grazing_or_flat": 1}}}
    hist["judged"] = {"overlap" if expect else "separated": 1}
    tests = tests_for(desc)
    if desc.get("only") == "primitives":
        tests = [x for x in tests if "primitives" in x[0]]
    for name, fn in tests:
        ctr = instr.instrument([s["A"], s["B"]], budget=4000)
        n_eval += 1
        try:
            r = fn(s["A"], s["B"])
        except instr.BudgetExceeded:
            viol.append(_viol(name, "no_termination_4000_support_calls", cls, {"truth": _tr(tr)}))
            continue
        except Exception as e:  # noqa
            viol.append(_viol(name, "exception:" + type(e).__name__, cls, {"exc": repr(e)[:300], "truth": _tr(tr)}))
            continue
        finally:
            instr.uninstrument([s["A"], s["B"]])
        if bool(r) != expect:
            kind = "missed_overlap" if expect else "phantom_contact"
            sym = ""
            if name == "mpr_intersection":
                if gs.flat_plane_contains_other_centre(s["rA"], s["rB"], L):
                    sym = ":flat_plane_contains_other_centre"
                elif kind == "phantom_contact" and gs.mpr_expand_portal_exact_tie(s["A"], s["B"]):
                    sym = ":expand_portal_exact_tie"
            viol.append(_viol(name, kind, cls + ":" + scale_class(s) + sym, {"answer": bool(r), "truth": _tr(tr), "delta": delta}))
        hist.setdefault("test", {})[name] = 1
    nt = [gs.nontrivial_key(desc)] if gs.is_degenerate(desc) else []
    sample = None
    if desc["pl"] == 14 and desc["u"] == 0 and desc["oa"] == 24 and desc["ta"] == "capsule" and desc["tb"] == "cone":
        sample = {"desc": desc, "truth": _tr(tr), "delta": delta, "expected_answer": expect}
    return {"viol": viol, "n_eval": n_eval, "n_trans": n_eval, "traces": n_eval, "nontrivial": nt, "hist": hist, "sample": sample}


def _tr(tr):
    return {k: v for k, v in tr.items() if k in ("kind", "gap", "depth", "depthA", "depthB", "L", "overlap")}
