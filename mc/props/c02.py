"""C02 - boolean collision tests never miss a clear overlap nor report a clear gap.

Only scenes with constructed ground truth are judged: separation g >= delta
(two parallel supporting planes) or a common point at depth >= delta in both
shapes; delta = 1e-3*L.  Nothing is asserted inside the grazing band.
All five tests (jolt, libccd, MPR, Nesterov with and without acceleration,
Nesterov-primitives on its five types with and without acceleration).
"""
import itertools

import numpy as np

from .. import gjkscenes as gs
from .. import instr
from .. import scenes as sc

PROPERTY = "C02"
TECHNIQUE = ("bounded-exhaustive scene-lattice exploration (all ordered type pairs x deviation-bounded sizes, orientations, "
             "offsets, margins, placements, directions) executing all boolean narrow-phase tests of the real code against "
             "constructed ground truth (certified gap / certified common point depth)")
RULE = ("state = scene descriptor with certified truth (gap >= delta or common-point depth >= delta, delta=1e-3*L); scenes "
        "inside the grazing band are generated but not judged (counted as 'unjudged'); transitions = one call of each "
        "applicable boolean test (up to 7 per scene); non-trivial = degenerate scene (lattice direction, coincident anchors, "
        "identical objects) or a mixed specialised/generic Nesterov pair; distinct = distinct descriptor")
ASSUMPTIONS = ["ground truth by construction from the reference model (mc/refmodel/shapes.py)",
               "delta = 1e-3*L, L = max(1, feature sizes, centre distances)"]
CHUNK = 100
STATE_TIMEOUT = 60.0

PRIM = ("sphere", "capsule", "box", "ellipsoid", "cylinder")
PLS = [0, 4, 5, 6, 13, 14, 15, 7, 8, 9, 11, 12]   # placements with a chance of certified truth


def warmup():
    from distance3d import gjk, mpr
    for ta in sc.TYPES:
        A, _ = sc.build(ta, 0, 0, np.zeros(3))
        for c in ([3.0, 0.1, 0.2], [0.2, 0.1, 0.0]):
            B, _ = sc.build("box", 0, 0, np.array(c))
            gjk.gjk_intersection(A, B)
            gjk.gjk_intersection_libccd(A, B)
            mpr.mpr_intersection(A, B)
            gjk.gjk_nesterov_accelerated_intersection(A, B)
            gjk.gjk_nesterov_accelerated(A, B, use_nesterov_acceleration=True)
            if ta in PRIM:
                gjk.gjk_nesterov_accelerated_primitives_intersection(A, B)
                gjk.gjk_nesterov_accelerated_primitives(A, B, use_nesterov_acceleration=True)


def enumerate_states(tier, seed):
    states = []
    for ta, tb in itertools.product(sc.TYPES, sc.TYPES):
        for d in gs.enumerate_pair(ta, tb, 2):
            if d["pl"] in PLS:
                states.append(d)
    meta = {"bound_completed": "deviation bound 2 over 9 scene coordinates, all 100 ordered type pairs, placements with "
                               "certifiable truth (12 of 16)", "exhaustive": True}
    # small-scale overlapping family (sizes ~1e-2, certified depth >= delta): absolute tolerances inside the tests bite here
    small = []
    for ta, tb in itertools.product(sc.TYPES, sc.TYPES):
        for pl, u, oa, ob in itertools.product((7, 8, 9), (0, 1, 14), (0, 24), (0, 26)):
            d = {"ta": ta, "tb": tb}
            d.update({n: 0 for n in gs.COORDS})
            d.update(sa=1, sb=1, pl=pl, u=u, oa=oa, ob=ob)
            small.append(d)
    states += small
    meta["bound_completed"] += " + small-scale overlapping family (%d scenes)" % len(small)
    if tier == "thorough":
        from . import c01
        extra = [d for d in c01.enumerate_dev3(seed, full=True) if d["pl"] in PLS]
        states += extra
        meta["bound_completed"] += " + deviation bound 3 on reduced alphabets (%d)" % len(extra)
    else:
        from . import c01
        extra = [d for d in c01.enumerate_dev3(seed, full=False) if d["pl"] in PLS]
        states += extra
        meta["bound_completed"] += " + seed slice of deviation-3 scenes (%d)" % len(extra)
    return states, meta


def _viol(entry, kind, cls, detail):
    return {"kind": kind, "entry": entry, "sig": "%s:%s:%s" % (entry, kind, cls), "detail": detail}


def tests_for(desc):
    from distance3d import gjk, mpr
    t = [("gjk_intersection", lambda a, b: gjk.gjk_intersection(a, b)),
         ("gjk_intersection_libccd", lambda a, b: gjk.gjk_intersection_libccd(a, b)),
         ("mpr_intersection", lambda a, b: mpr.mpr_intersection(a, b)),
         ("nesterov_intersection", lambda a, b: gjk.gjk_nesterov_accelerated_intersection(a, b)),
         ("nesterov_intersection_acc", lambda a, b: gjk.gjk_nesterov_accelerated(a, b, use_nesterov_acceleration=True)[0])]
    if desc["ta"] in PRIM and desc["tb"] in PRIM and not desc["ma"] and not desc["mb"]:
        t.append(("nesterov_primitives_intersection", lambda a, b: gjk.gjk_nesterov_accelerated_primitives_intersection(a, b)))
        t.append(("nesterov_primitives_intersection_acc",
                  lambda a, b: gjk.gjk_nesterov_accelerated_primitives(a, b, use_nesterov_acceleration=True)[0]))
    return t


def scale_class(s):
    m = max(s["rA"].size(), s["rB"].size())
    n = min(s["rA"].size(), s["rB"].size())
    return "small" if n < 0.1 else "large" if m > 10 else "unit"


def run_state(desc):
    s = gs.build(desc)
    tr = s["truth"]
    L = tr["L"]
    delta = 1e-3 * L
    if tr["overlap"]:
        judged = tr["depth"] >= delta and tr["depthA"] >= delta and tr["depthB"] >= delta
        expect = True
    else:
        judged = tr["gap"] >= delta
        expect = False
    cls = gs.pair_class(desc)
    viol, hist = [], {}
    n_eval = 0
    if not judged:
        return {"viol": [], "n_eval": 0, "n_trans": 0, "traces": 0, "hist": {"judged": {"unjudged_grazing_or_flat": 1}}}
    hist["judged"] = {"overlap" if expect else "separated": 1}
    for name, fn in tests_for(desc):
        ctr = instr.instrument([s["A"], s["B"]], budget=4000)
        n_eval += 1
        try:
            r = fn(s["A"], s["B"])
        except instr.BudgetExceeded:
            viol.append(_viol(name, "no_termination_4000_support_calls", cls, {"truth": _tr(tr)}))
            continue
        except Exception as e:  # noqa
            viol.append(_viol(name, "exception:" + type(e).__name__, cls, {"exc": repr(e)[:300], "truth": _tr(tr)}))
            continue
        finally:
            instr.uninstrument([s["A"], s["B"]])
        if bool(r) != expect:
            kind = "missed_overlap" if expect else "phantom_contact"
            viol.append(_viol(name, kind, cls + ":" + scale_class(s), {"answer": bool(r), "truth": _tr(tr), "delta": delta}))
        hist.setdefault("test", {})[name] = 1
    nt = [gs.nontrivial_key(desc)] if gs.is_degenerate(desc) else []
    sample = None
    if desc["pl"] == 14 and desc["u"] == 0 and desc["oa"] == 24 and desc["ta"] == "capsule" and desc["tb"] == "cone":
        sample = {"desc": desc, "truth": _tr(tr), "delta": delta, "expected_answer": expect}
    return {"viol": viol, "n_eval": n_eval, "n_trans": n_eval, "traces": n_eval, "nontrivial": nt, "hist": hist, "sample": sample}


def _tr(tr):
    return {k: v for k, v in tr.items() if k in ("kind", "gap", "depth", "depthA", "depthB", "L", "overlap")}
