"""C20 - compiled (numba) and interpreted execution give the same results.

A corpus of calls drawn from the quick corpora of the other properties (support functions, AABBs, GJK flavours,
boolean tests, MPR, EPA, the 34 primitive distance functions, containment predicates, simplex solvers, AABB-tree
histories incl. empty containers, tetrahedron intersection, hydroelastic body pairs, mesh factories) is executed in
three fresh interpreter processes: JIT (as installed), NUMBA_DISABLE_JIT=1 (as the README prescribes for the tests)
and JIT with NUMBA_BOUNDSCHECK=1 (out-of-bounds reads become IndexError).  Outputs are compared call by call.
Plus the import obligation: every public module must import with the JIT on, without any alias for removed numpy names.
"""
import itertools
import json
import os
import subprocess
import sys

import numpy as np

from .. import bootstrap
from .. import gjkscenes as gs
from .. import instr
from .. import primscenes as ps
from .. import scenes as sc

PROPERTY = "C20"
TECHNIQUE = ("differential execution of an enumerated call corpus in three execution modes (JIT, interpreted, JIT+boundscheck) "
             "in fresh interpreter processes; per-call comparison with the tolerance of the owning property")
RULE = ("state = shard of the call corpus (each call = (entry point, descriptor)); every call is executed in 3 modes; non-trivial = "
        "call whose result is not an exception and involves compiled code; distinct = distinct call")
ASSUMPTIONS = ["closed-form outputs compared at 1e-9 relative, iterative solvers at the tolerance of C01/C07-C09, booleans only on scenes with a certified margin",
               "NUMBA_BOUNDSCHECK=1 makes out-of-bounds reads of compiled code deterministic IndexErrors"]
CHUNK = 2
SUB_CHUNK = 2
STATE_TIMEOUT = 900.0
N_SHARDS = 48
N_SHARDS_THOROUGH = 960


UTIL_FUNCS = ["norm_vector", "scalar_triple_product", "plane_basis_from_normal", "transform_point", "transform_points", "transform_directions",
              "inverse_transform_point", "invert_transform", "cross_product_matrix", "adjoint_from_transform", "convert_segment_to_line",
              "convert_box_to_vertices", "hesse_normal_form", "barycentric_coordinates_tetrahedron", "make_support_point", "angles_between_vectors",
              "line_from_pluecker", "convert_rectangle_to_vertices"]
UTIL_N = 24


def util_call(fn, i):
    """Deterministic argument tuple number i for utility fn (lattice / alphabet values; valid inputs only)."""
    from distance3d import utils as U, geometry as Gm, minkowski as Mk
    from . import c15
    vecs = [np.ascontiguousarray(np.asarray(d, dtype=float) * k) for d in sc.DIRS for k in (1.0, 1e-3, 250.0)]
    v = vecs[(7 * i) % len(vecs)]
    w = vecs[(11 * i + 3) % len(vecs)]
    x = vecs[(13 * i + 5) % len(vecs)]
    T = sc.pose((5 * i) % len(sc.ROTS), sc.OFFSETS[i % len(sc.OFFSETS)])
    P = np.ascontiguousarray(np.array([vecs[(j * 3 + i) % len(vecs)] for j in range(5)]))
    if fn == "norm_vector":
        return U.norm_vector(np.zeros(3) if i == 0 else v)
    if fn == "scalar_triple_product":
        return U.scalar_triple_product(v, w, x)
    if fn == "plane_basis_from_normal":
        return U.plane_basis_from_normal(np.ascontiguousarray(v / np.linalg.norm(v)))
    if fn == "transform_point":
        return U.transform_point(T, v)
    if fn == "transform_points":
        return U.transform_points(T, P)
    if fn == "transform_directions":
        return U.transform_directions(T, P)
    if fn == "inverse_transform_point":
        return U.inverse_transform_point(T, v)
    if fn == "invert_transform":
        return U.invert_transform(T)
    if fn == "cross_product_matrix":
        return U.cross_product_matrix(v)
    if fn == "adjoint_from_transform":
        return U.adjoint_from_transform(T)
    if fn == "angles_between_vectors":
        return U.angles_between_vectors(P, np.ascontiguousarray(P[::-1]))
    if fn == "convert_segment_to_line":
        return Gm.convert_segment_to_line(v, np.ascontiguousarray(v + w))
    if fn == "convert_box_to_vertices":
        return Gm.convert_box_to_vertices(T, np.array([1.0, 0.5 + 0.25 * (i % 3), 2.0]))
    if fn == "hesse_normal_form":
        return Gm.hesse_normal_form(v, np.ascontiguousarray(w / np.linalg.norm(w)))
    if fn == "barycentric_coordinates_tetrahedron":
        tet = np.ascontiguousarray(list(c15.TETS.values())[i % 3] @ sc.ROTS[(3 * i) % len(sc.ROTS)].T + sc.OFFSETS[i % len(sc.OFFSETS)])
        return Gm.barycentric_coordinates_tetrahedron(np.ascontiguousarray(tet.mean(axis=0) + 0.1 * v / np.linalg.norm(v)), tet)
    if fn == "make_support_point":
        return Mk.make_support_point(v, w)
    if fn == "line_from_pluecker":
        d = v / np.linalg.norm(v)
        return Gm.line_from_pluecker(np.ascontiguousarray(d), np.ascontiguousarray(np.cross(w, d)))
    if fn == "convert_rectangle_to_vertices":
        R = sc.ROTS[(5 * i) % len(sc.ROTS)]
        return Gm.convert_rectangle_to_vertices(np.ascontiguousarray(w), np.ascontiguousarray(R[:, :2].T), np.array([1.0, 0.5 + 0.5 * (i % 2)]))
    raise ValueError(fn)


def warmup():
    import distance3d.gjk, distance3d.mpr, distance3d.epa, distance3d.distance  # noqa
    import distance3d.containment_test, distance3d.aabb_tree, distance3d.hydroelastic_contact  # noqa


# ------------------------------------------------------------------ corpus

_CORPUS = {}


def corpus():
    t = bootstrap.tier()
    if t not in _CORPUS:
        _CORPUS[t] = _corpus(t == "thorough")
    return _CORPUS[t]


def _corpus(thorough):
    C = []
    # support functions and AABBs: all types x sizes x 8 orientations x 2 offsets x 6 directions
    for t in sc.TYPES:
        for s in range(sc.n_sizes(t)):
            for o in (range(len(sc.ROTS)) if thorough else (0, 5, 24, 28, 31)):
                for f in (range(len(sc.OFFSETS)) if thorough else (0, 2)):
                    for m in (0, 1):
                        C.append({"k": "collider", "t": t, "s": s, "o": o, "f": f, "m": m})
    # narrow phase: deviation-1 scene lattice of all type pairs (identity offsets)
    for ta, tb in itertools.product(sc.TYPES, sc.TYPES):
        for d in gs.enumerate_pair(ta, tb, 1):
            if thorough or (d["u"] in (0, 1, 7, 20, 28) and d["oa"] in (0, 5, 24, 28) and d["ob"] in (0, 9, 26) and d["sa"] in (0, 1, 2) and d["sb"] in (0, 1, 3)):
                d["k"] = "scene"
                C.append(d)
        for pl in (16, 17):
            d = {"ta": ta, "tb": tb, "k": "scene"}
            d.update({n: 0 for n in gs.COORDS})
            d["pl"] = pl
            C.append(d)
        if thorough:
            # pairs of deviations over a reduced alphabet (orientation x placement x direction x size)
            from . import c01
            alph = dict(c01.RED, pl=[0, 1, 3, 5, 7, 9, 10, 13, 14], u=[0, 1, 10, 20, 28])
            for d in gs.enumerate_custom(ta, tb, alph, 2):
                if sum(1 for n in gs.COORDS if d[n] != 0) == 2:
                    d["k"] = "scene"
                    C.append(d)
    # primitive distance functions: every function x every first primitive (all second primitives inside)
    for st in ps.enumerate_states(ps.all_names(), shifts=thorough):
        st["k"] = "prim"
        C.append(st)
    # containment predicates
    for t, sizes in (("sphere", [0]), ("capsule", [0]), ("ellipsoid", [0, 3]), ("disk", [0]), ("cone", [0]), ("cylinder", [0]), ("box", [0, 3]), ("mesh", [0, 6])):
        for s in sizes:
            for o in (range(len(sc.ROTS)) if thorough else (0, 5, 24, 28)):
                C.append({"k": "contain", "t": t, "s": s, "o": o, "f": 3})
    # simplex solvers: lattice multisets (every 7th), all orderings
    from . import c18
    v1 = (-1, 0, 1)
    for k in (1, 2, 3, 4):
        for i, ms in enumerate(c18._multisets(v1, k)):
            if k < 4 or i % 9 == 0 or thorough:
                C.append({"k": "simplex", "n": k, "pts": [list(p) for p in ms]})
    # AABB tree histories incl. the empty tree
    from . import c05
    n = len(c05.alphabet("red4"))
    for first in range(n):
        for bs in ("std", "flat"):
            C.append({"k": "tree", "first": first, "boxes": bs})
    if thorough:
        for first in range(len(c05.alphabet("full5"))):
            C.append({"k": "tree", "first": first, "boxes": "std", "alphabet": "full5", "depth": 2})
    # tetrahedron pairs and hydroelastic body pairs, mesh factories
    from . import c15, c17
    for name in c15.TETS:
        for r in (range(sc.N_CUBE + 2) if thorough else (0, 3, 7, 12, 20, 24)):
            C.append({"k": "tets", "tet": name, "rot": r})
    from .. import hydro
    for fa, fb in itertools.product(hydro.FACTORIES, hydro.FACTORIES):
        for pl in (0, 2, 4):
            C.append({"k": "bodies", "a": fa, "b": fb, "pl": pl, "ob": 5 if pl == 2 else 0, "g": 0})
        if thorough:
            for pl, ob in ((0, 24), (1, 0), (1, 26), (2, 0), (3, 0), (3, 5), (5, 0)):
                C.append({"k": "bodies", "a": fa, "b": fb, "pl": pl, "ob": ob, "g": 0})
    for st in c17.enumerate_states("quick", 0)[0][::(1 if thorough else 4)]:
        C.append({"k": "mesh", "f": st["f"], "p": st["p"]})
    # colliders whose pose was set through update_pose (array layouts differ from the constructor path)
    for t in sc.TYPES:
        if t == "hull":
            continue
        for o2, f2, m in ((5, 3, 0), (24, 2, 0), (13, 0, 1)) + (((28, 1, 0), (9, 3, 1), (0, 2, 0)) if thorough else ()):
            C.append({"k": "updated", "t": t, "s": 0, "o": o2, "f": f2, "m": m})
    # jitted utilities of utils.py / geometry.py / minkowski.py that no other family calls directly
    for fn in UTIL_FUNCS:
        for i in range(UTIL_N if thorough else 6):
            C.append({"k": "util", "fn": fn, "i": i})
    # degenerate narrow-phase family of C19 (exact touching, coincident, zero-volume, needles): exception types and finiteness
    from . import c19
    for i, st in enumerate(c19.enumerate_states("quick", 0)[0]):
        if st.get("op") == 0 and ((i % 7 == 0 or st["pl"] in (1, 8)) and (i % 3 == 0) or thorough):
            C.append({"k": "degenerate", "a": st["a"], "b": st["b"], "pl": st["pl"], "op": st["op"]})
    return C


def shards():
    C = corpus()
    n = N_SHARDS_THOROUGH if bootstrap.tier() == "thorough" else N_SHARDS
    return [{"shard": i, "n": n} for i in range(n)], C


def enumerate_states(tier, seed):
    st, C = shards()
    return st, {"bound_completed": "corpus of %d calls (each expanding to several library calls) executed in 3 modes" % len(C), "exhaustive": True}


def sub_states(mode, tier):
    return shards()[0]


# ------------------------------------------------------------------ execution of one call

def _r(x):
    """JSON-able, comparable representation."""
    if x is None:
        return None
    if isinstance(x, (bool, np.bool_)):
        return bool(x)
    if isinstance(x, (int, np.integer)):
        return int(x)
    if isinstance(x, (float, np.floating)):
        return float(x)
    if isinstance(x, np.ndarray):
        return [_r(v) for v in x.tolist()]
    if isinstance(x, (list, tuple)):
        return [_r(v) for v in x]
    if isinstance(x, dict):
        return {str(k): _r(v) for k, v in x.items()}
    return repr(x)


def _try(fn):
    try:
        return _r(fn())
    except AssertionError:
        return "exc:AssertionError"
    except Exception as e:  # noqa
        return "exc:" + type(e).__name__


def execute(call):
    """Returns dict name -> (class, value); class in {'exact','closed','iter5','iter3','bool_certified','bool_any'}."""
    from distance3d import gjk, mpr, epa
    out = {}
    k = call["k"]
    if k == "collider":
        centre = sc.OFFSETS[call["f"]]
        mv = sc.margin_value(call["t"], call["s"], call["m"])
        col, _ = sc.build(call["t"], call["s"], call["o"], centre, mv, want_ref=False)
        for di in (0, 1, 7, 14, 20, 28):
            out["sup%d" % di] = ("closed_or_tie", _try(lambda: col.support_function(np.ascontiguousarray(sc.DIRS[di]))), di)
        out["aabb"] = ("closed", _try(lambda: col.aabb()))
        out["first_vertex"] = ("closed", _try(lambda: col.first_vertex()))
        out["center"] = ("closed", _try(lambda: col.center()))
    elif k == "scene":
        s = gs.build(call)
        A, B, tr = s["A"], s["B"], s["truth"]
        L = tr["L"]
        delta = 1e-3 * L
        if tr.get("overlap") is True:
            cert = min(tr.get("depthA", 0), tr.get("depthB", 0)) >= 3 * delta
        elif tr.get("overlap") is False:
            cert = tr["gap"] >= 3 * delta
        else:
            cert = False
        res = {}

        def jolt():
            r = gjk.gjk(A, B)
            res["jolt"] = r
            return r[0]
        out["jolt_d"] = ("iter5", _try(jolt), L)
        out["orig_d"] = ("iter3", _try(lambda: gjk.gjk_distance_original(A, B)[0]), L)
        out["nest_d"] = ("iter3", _try(lambda: gjk.gjk_nesterov_accelerated_distance(A, B)), L)
        out["nest_acc"] = ("iter3", _try(lambda: max(gjk.gjk_nesterov_accelerated(A, B, use_nesterov_acceleration=True)[1], 0.0)), L)
        prim = ("sphere", "capsule", "box", "ellipsoid", "cylinder")
        if call["ta"] in prim and call["tb"] in prim and not call["ma"] and not call["mb"]:
            out["prim_d"] = ("iter3", _try(lambda: gjk.gjk_nesterov_accelerated_primitives_distance(A, B)), L)
        cls = "bool_certified" if cert else "bool_any"
        out["b_jolt"] = (cls, _try(lambda: gjk.gjk_intersection(A, B)))
        out["b_libccd"] = (cls, _try(lambda: gjk.gjk_intersection_libccd(A, B)))
        out["b_mpr"] = (cls, _try(lambda: mpr.mpr_intersection(A, B)))
        out["b_nest"] = (cls, _try(lambda: gjk.gjk_nesterov_accelerated_intersection(A, B)))

        def mprp():
            r = mpr.mpr_penetration(A, B)
            return [bool(r[0]), None if r[1] is None else float(r[1])]
        out["mpr_pen"] = ("mpr", _try(mprp), L)
        r = res.get("jolt")
        if r is not None and r[1] is not None and r[0] == 0.0 and np.all(np.isfinite(r[3])):
            M = np.vstack([np.asarray(r[3]).T, np.ones(4)])
            if abs(np.linalg.det(M)) > 1e-9 and np.min(np.linalg.solve(M, [0, 0, 0, 1.0])) > 1e-9:
                def epa_():
                    mtv, faces, ok = epa.epa(np.ascontiguousarray(r[3]), A, B)
                    return [bool(ok), float(np.linalg.norm(mtv))]
                out["epa"] = ("epa", _try(epa_), L)
    elif k == "prim":
        name = call["fn"]
        ka, kb = ps.FUNCS.get(name, ps.VARIANTS.get(name))
        A = ps.alph(ka)[call["i"]]
        for j, B in enumerate(ps.alph(kb)):
            tol = 5e-3 if "circle" in name else 1e-9
            out["%s:%d" % (name, j)] = ("prim", _try(lambda: ps.call(name, A, B)[0]), max(1.0, ps.scale_L(A, B)) * (tol / 1e-9))
    elif k == "updated":
        def run_updated():
            mv = sc.margin_value(call["t"], call["s"], call["m"])
            col, _ = sc.build(call["t"], call["s"], 0, np.zeros(3), mv, want_ref=False)
            stack = np.ascontiguousarray(np.stack([sc.pose(3, sc.OFFSETS[1]), sc.pose(call["o"], sc.OFFSETS[call["f"]])]))
            col.update_pose(stack[1])          # item of a pose stack, as a trajectory would pass it
            out_ = [np.asarray(col.support_function(np.ascontiguousarray(sc.DIRS[i])), dtype=float) for i in (0, 3, 14, 27)]
            out_.append(np.asarray(col.aabb(), dtype=float))
            out_.append(np.asarray(col.center(), dtype=float))
            return out_
        out["updated"] = ("closed", _try(run_updated))
    elif k == "util":
        out[call["fn"]] = ("closed", _try(lambda: util_call(call["fn"], call["i"])))
    elif k == "contain":
        from . import c13
        centre = sc.OFFSETS[call["f"]].copy()
        col, ref = sc.build(call["t"], call["s"], call["o"], centre)
        pred = c13.predicate(call["t"], call["s"], call["o"], centre)
        pts = [ref.centre()]
        for n in sc.DIRS[:14]:
            p0 = ref.argsup(n)
            for d in (-0.3 * ref.size(), -1e-3, 1e-3, 0.5 * ref.size()):
                pts.append(p0 + d * n)
        P = np.ascontiguousarray(np.array(pts))
        out["contain"] = ("exact", _try(lambda: pred(P)))
    elif k == "simplex":
        from distance3d.gjk._gjk_jolt import get_closest_point_to_origin
        n = call["n"]
        for perm in itertools.islice(itertools.permutations(range(n)), 6):
            Y = np.zeros((4, 3))
            Y[:n] = np.array([call["pts"][i] for i in perm], dtype=float)

            def run():
                ok, v, l2, st = get_closest_point_to_origin(Y, n, np.inf)
                return [bool(ok), float(np.linalg.norm(v)), int(st)]
            out["jolt%s" % (perm,)] = ("simplex", _try(run))
    elif k == "tree":
        from . import c05
        out["tree"] = ("exact", _try(lambda: tree_observations(call)))
    elif k == "tets":
        out["tets"] = ("tets", _try(lambda: tets_observations(call)))
    elif k == "bodies":
        from . import c15
        from .. import hydro
        from distance3d import hydroelastic_contact as hc
        TA, TB, pl = c15.body_poses(call)

        def run():
            i, w12, w21 = hc.contact_forces(hydro.make_body(call["a"], TA), hydro.make_body(call["b"], TB))
            return [bool(i), [float(x) for x in w12], [float(x) for x in w21]]
        out["forces"] = ("forces", _try(run))
    elif k == "degenerate":
        from . import c19
        ia, ib = c19.ITEMS[call["a"]], c19.ITEMS[call["b"]]
        oa, ob = c19.ORI_PAIRS[call["op"]]
        A = c19.make(ia, oa, np.zeros(3))
        B0 = c19.make(ib, ob, np.zeros(3))
        hA = 0.5 * (A.aabb()[:, 1] - A.aabb()[:, 0])
        hB = 0.5 * (B0.aabb()[:, 1] - B0.aabb()[:, 0])
        cAB = 0.5 * (A.aabb()[:, 1] + A.aabb()[:, 0]) - 0.5 * (B0.aabb()[:, 1] + B0.aabb()[:, 0])
        pl = c19.PLACEMENTS[call["pl"]]
        off = {"coincident": np.zeros(3), "touch_x": cAB + np.array([hA[0] + hB[0], 0.0, 0.0]),
               "tiny_gap_x": cAB + np.array([hA[0] + hB[0] + 1e-9, 0.0, 0.0]), "half_x": cAB + np.array([0.5 * (hA[0] + hB[0]), 0.0, 0.0]),
               "apart_x": cAB + np.array([2.0 * (hA[0] + hB[0]) + 1.0, 0.0, 0.0]), "small_generic": max(1e-3, min(np.max(hA), np.max(hB))) * np.array([0.3, 0.2, 0.1]),
               "diag_touch": cAB + (hA + hB), "touch_z": cAB + np.array([0.0, 0.0, hA[2] + hB[2]]), "same_object": np.zeros(3),
               "small_gap_x": cAB + np.array([hA[0] + hB[0] + 1e-5, 0.0, 0.0]), "small_gap_z": cAB + np.array([0.0, 0.0, hA[2] + hB[2] + 1e-5])}[pl]
        B = A if pl == "same_object" else c19.make(ib, ob, off)
        tb = ia[0] if pl == "same_object" else ib[0]
        for name, fn in c19.entries(ia[0], tb):
            def run(_fn=fn, _name=name):
                r = _fn(A, B)
                return "finite" if c19._finite_result(_name, r) else "nonfinite"
            out[name] = ("exact", _try(run))
    elif k == "mesh":
        from . import c17

        def run():
            v, t, pot, rb, ref, inr, T = c17.make(call["f"], call["p"])
            return [int(len(v)), int(len(t)), float(np.abs(np.linalg.det(v[t][:, 1:] - v[t][:, :1])).sum() / 6.0), float(pot.sum())]
        out["mesh"] = ("closed", _try(run))
    return out


def tree_observations(call):
    """All histories of depth <= 2 starting with one operation: query results incl. the empty tree (as payload lists)."""
    from . import c05
    from distance3d.aabb_tree import AabbTree
    c05._ACTIVE[0] = call["boxes"]
    c05._REF_TREES = None
    alpha = c05.alphabet(call.get("alphabet", "red4"))
    obs = []
    hists = [[alpha[call["first"]]]] + [[alpha[call["first"]], op] for op in alpha]
    empty = AabbTree()
    for h in hists:
        t, m = AabbTree(), c05.Model()
        for op in h:
            c05.apply_impl(t, op, m.count)
            m.apply(op)
        row = []
        for q in c05.QUERIES[:8]:
            try:
                flag, ov = t.overlaps_aabb(q.copy())
                row.append([bool(flag), sorted(repr(t.external_data_list[int(i)]) for i in np.asarray(ov).ravel())])
            except Exception as e:  # noqa
                row.append("exc:" + type(e).__name__)
        for other in (empty, t):
            for a, b in ((t, other), (other, t)):
                try:
                    flag, o1, o2, pairs = a.overlaps_aabb_tree(b)
                    row.append([bool(flag), sorted((int(x), int(y)) for x, y in pairs)])
                except Exception as e:  # noqa
                    row.append("exc:" + type(e).__name__)
        obs.append(row)
    return obs


def tets_observations(call):
    from . import c15
    from distance3d import hydroelastic_contact as hc
    t1 = np.ascontiguousarray(c15.TETS[call["tet"]])
    e1 = c15.POTS[call["tet"]].copy()
    R = sc.ROTS[call["rot"]]
    X1 = np.ascontiguousarray(hc.barycentric_transforms(t1[np.newaxis])[0])
    obs = []
    for other in c15.TETS:
        for tr in c15.TRANS[::3]:
            t2 = np.ascontiguousarray(c15.TETS[other] @ R.T + tr)
            e2 = c15.POTS[other].copy()
            X2 = np.ascontiguousarray(hc.barycentric_transforms(t2[np.newaxis])[0])
            try:
                i12, det = hc.intersect_tetrahedron_pair(t1, e1, X1, t2, e2, X2, 1.0, 1.0)
                area = 0.0
                if i12 and det[1] is not None and len(det[1]) >= 3:
                    P = np.asarray(det[1])
                    n = np.asarray(det[0][:3])
                    area = 0.5 * abs(sum(float(np.cross(P[i] - P[0], P[i + 1] - P[0]) @ n) for i in range(1, len(P) - 1)))
                obs.append([bool(i12), area])
            except Exception as e:  # noqa
                obs.append("exc:" + type(e).__name__)
    return obs


def run_state(desc):
    C = corpus()
    mine = C[desc["shard"]::desc["n"]]
    obs = {}
    n_eval = 0
    for idx, call in enumerate(mine):
        r = execute(call)
        n_eval += len(r)
        obs[str(desc["shard"] + idx * desc["n"])] = r
    return {"viol": [], "n_eval": n_eval, "n_trans": n_eval, "traces": n_eval, "obs": obs,
            "nontrivial_n": sum(1 for r in obs.values() for v in r.values() if not (isinstance(v[1], str) and v[1].startswith("exc:"))),
            "hist": {"mode": {os.environ.get("VERIF_MODE", "jit"): n_eval}},
            "sample": {"call": mine[0], "result": {k: v[1] for k, v in list(execute(mine[0]).items())[:3]}} if desc["shard"] == 0 else None}


# ------------------------------------------------------------------ comparison

def _close(a, b, tol):
    if isinstance(a, str) or isinstance(b, str):
        return a == b
    if a is None or b is None:
        return a is None and b is None
    if isinstance(a, bool) or isinstance(b, bool):
        return a == b
    if isinstance(a, list):
        return isinstance(b, list) and len(a) == len(b) and all(_close(x, y, tol) for x, y in zip(a, b))
    a, b = float(a), float(b)
    if not (np.isfinite(a) and np.isfinite(b)):
        return (np.isnan(a) and np.isnan(b)) or a == b
    return abs(a - b) <= tol * max(1.0, abs(a), abs(b))


def compare_entry(name, ra, rb):
    """None if equal within the class tolerance, else a short reason."""
    cls, va = ra[0], ra[1]
    vb = rb[1]
    exa = isinstance(va, str) and va.startswith("exc:")
    exb = isinstance(vb, str) and vb.startswith("exc:")
    if exa or exb:
        return None if va == vb else "exception_differs"
    if cls == "exact":
        return None if va == vb else "differs"
    if cls == "closed":
        return None if _close(va, vb, 1e-9) else "differs"
    if cls == "closed_or_tie":
        if _close(va, vb, 1e-9):
            return None
        d = sc.DIRS[ra[2]]
        # different vertex of a tie: the support VALUE must agree
        return None if abs(float(np.dot(va, d)) - float(np.dot(vb, d))) <= 1e-9 * max(1.0, abs(float(np.dot(va, d)))) else "differs"
    if cls in ("iter5", "iter3"):
        L = ra[2]
        tol = (1e-5 if cls == "iter5" else 1e-3) * L
        if va > 1e300 or vb > 1e300:
            return None if (va > 1e300) == (vb > 1e300) else "clip_differs"
        return None if abs(va - vb) <= 2 * tol else "differs"
    if cls == "prim":
        return None if _close(va, vb, 1e-9 * ra[2]) else "differs"
    if cls == "bool_certified":
        return None if va == vb else "boolean_differs"
    if cls == "bool_any":
        return None
    if cls == "mpr":
        # the MPR depth is not a function of the geometry (several portals are valid when the origin ray passes through an
        # edge; rounding picks one), so equality across modes is not implied by C08; flags are judged through the certified booleans
        return None
    if cls == "epa":
        if va[0] != vb[0]:
            return "success_flag_differs"
        return None if (not va[0]) or abs(va[1] - vb[1]) <= 2e-6 * ra[2] else "differs"
    if cls == "simplex":
        return None if (va[0] == vb[0] and abs(va[1] - vb[1]) <= 1e-9 * max(1.0, va[1])) else "differs"
    if cls == "tets":
        if len(va) != len(vb):
            return "differs"
        for x, y in zip(va, vb):
            if isinstance(x, str) or isinstance(y, str):
                if x != y:
                    return "exception_differs"
            elif (x[0] != y[0] and max(x[1], y[1]) > 1e-6) or abs(x[1] - y[1]) > 1e-6:
                return "differs"
        return None
    if cls == "forces":
        if va[0] != vb[0]:
            return "flag_differs"
        f = max(1e-300, float(np.linalg.norm(va[1][:3])))
        return None if np.linalg.norm(np.array(va[1]) - np.array(vb[1])) <= 1e-6 * max(f, 1e-12) + 1e-15 else "differs"
    return None


IMPORT_SMOKE = """
import sys, types
sys.path.insert(0, %r)
try:
    import open3d
except Exception:
    sys.modules.pop('open3d', None)
    sys.modules['open3d'] = types.ModuleType('open3d')
import pytransform3d.visualizer as pv
if not hasattr(pv, 'Artist'):
    pv.Artist = object
import numpy
assert not hasattr(numpy, 'row_stack') or True
import distance3d.gjk, distance3d.mpr, distance3d.epa, distance3d.distance, distance3d.self_collision, distance3d.broad_phase
import distance3d.containment, distance3d.containment_test, distance3d.colliders, distance3d.aabb_tree, distance3d.mesh, distance3d.utils
import distance3d.geometry, distance3d.minkowski, distance3d.hydroelastic_contact
print('IMPORT-OK')
"""


def finalize(ctx):
    from .. import subrun
    jit = {}
    for o in ctx.obs.values():
        jit.update(o)
    C = corpus()
    for mode in ("nojit", "boundscheck"):
        res = subrun.run("c20", mode, ctx.tier, ctx.seed, nproc=16)
        other = {}
        for desc, o in res.get("obs", []):
            other.update(o)
        ctx.extra["mode_%s" % mode] = {"calls": len(other), "wall_s": res["wall_s"]}
        ctx.n_eval += res["evaluations"]
        ctx.n_trans += res["transitions"]
        for desc, v in res["viol"]:
            v = dict(v)
            v["global"] = True
            ctx.viol.append((desc, v))
        seen = set()
        for key, rj in jit.items():
            ro = other.get(key)
            if ro is None:
                ctx.viol.append(({"call": key}, {"kind": "missing_in_mode", "entry": mode, "sig": "missing:%s" % mode, "detail": {"call": C[int(key)]}, "global": True}))
                continue
            for name, ra in rj.items():
                rb = ro.get(name)
                if rb is None:
                    continue
                why = compare_entry(name, ra, rb)
                if why == "exception_differs" and name.startswith("epa") and "exc:AssertionError" in (ra[1], rb[1]):
                    call = C[int(key)]
                    if not (call.get("ta") in ("box", "hull", "mesh") and call.get("tb") in ("box", "hull", "mesh")) or call.get("ma") or call.get("mb"):
                        # EPA's documented polytope-capacity assertion for smooth shapes: whether the 200-face budget is just
                        # enough is a decision boundary that rounding differences between the modes may cross
                        why = None
                if why is not None:
                    call = C[int(key)]
                    ent = name.split(":")[0] if call["k"] == "prim" else ("%s.%s" % (call["k"], name.split("(")[0]))
                    sig = "jit_vs_%s:%s:%s" % (mode, why, ent)
                    dsig = sig + "@" + key + ":" + name
                    ctx.viol.append((dict(call, entry=name), {"kind": why, "entry": ent, "sig": sig, "dsig": dsig, "global": True,
                                                             "detail": {"call": call, "entry": name, "jit": ra[1], mode: rb[1]}}))
    # import obligation (JIT on, no alias for removed numpy names)
    env = dict(os.environ)
    for k in ("NUMBA_DISABLE_JIT", "NUMBA_BOUNDSCHECK"):
        env.pop(k, None)
    p = subprocess.run([sys.executable, "-W", "ignore", "-c", IMPORT_SMOKE % bootstrap.REPO], env=env, stdout=subprocess.PIPE, stderr=subprocess.PIPE, text=True)
    ctx.extra["import_smoke"] = "ok" if "IMPORT-OK" in p.stdout else "failed"
    if "IMPORT-OK" not in p.stdout:
        last = [l for l in p.stderr.strip().splitlines() if l.strip()][-1:] or ["?"]
        ctx.viol.append(({"call": "import"}, {"kind": "import_fails_with_jit", "entry": "import", "sig": "import_fails_with_jit", "global": True,
                                              "detail": {"stderr_last_line": last[0][:300]}}))
