"""C05 - AABB tree answers overlap queries exactly, for every insertion history.

Explicit-state search over operation histories of the real AabbTree:
alphabet = single inserts and batches (sizes 0..3, modes none / sort / shuffle
driven through EVERY permutation via an RNG seam, with / without external
data) over a small set of lattice boxes (touching, nested, duplicate,
zero-volume, disjoint).  Each shard explores all histories that start with one
operation, de-duplicating canonical states (the arrays + payload lists: the
class has no other state, so equal arrays have equal futures).  In every state:
structural invariants, box queries and tree-vs-tree queries are compared with
a list-of-boxes reference model.
"""
import itertools
import json
import os
import subprocess
import sys

import numpy as np

PROPERTY = "C05"
TECHNIQUE = ("explicit-state search over insertion histories of the real AabbTree (depth-bounded, canonical-state "
             "de-duplication, RNG seam enumerating every shuffle permutation) vs list-of-boxes reference model; "
             "re-run under NUMBA_BOUNDSCHECK=1 for memory safety")
RULE = ("state = canonical tree arrays + payload lists reached by an operation history; transition = one insert_aabb / "
        "insert_aabbs call; in every state invariants + 14 box queries + tree-vs-tree queries against 9 reference trees (incl. the empty tree and small clusters inside the explored boxes) "
        "(both directions); non-trivial = state with >= 2 leaves reached by >= 2 operations; distinct = distinct canonical state")
ASSUMPTIONS = ["reference model = python list of (box, payload, insert index), closed-interval overlap written out again",
               "shards (first operation) are explored independently; distinct-state counts are per shard sums"]
CHUNK = 1
STATE_TIMEOUT = 600.0


def _box(lo, hi):
    return np.array([[lo[0], hi[0]], [lo[1], hi[1]], [lo[2], hi[2]]], dtype=float)


BOXES = [
    _box((0, 0, 0), (1, 1, 1)),      # 0 unit cube
    _box((1, 0, 0), (2, 1, 1)),      # 1 touches 0 on a face
    _box((1, 1, 1), (2, 2, 2)),      # 2 touches 0 in a corner, 1 on a face
    _box((0, 0, 0), (3, 3, 3)),      # 3 contains 0,1,2
    _box((3, 3, 3), (3, 3, 3)),      # 4 zero-volume point at the corner of 3
    _box((2, 0, 2), (3, 1, 2)),      # 5 zero-thickness plate
    _box((0, 0, 0), (1, 1, 1)),      # 6 duplicate of 0
    _box((-3, -3, -3), (-2, -2, -2)),  # 7 disjoint from everything
]
FLAT_BOXES = [
    _box((0, 0, 1), (1, 1, 1)),      # plate in the plane z=1
    _box((2, 0, 1), (3, 1, 1)),      # disjoint plate in the same plane
    _box((1, 1, 1), (2, 2, 1)),      # plate touching both in a corner
    _box((0, 0, 1), (1, 0, 1)),      # segment on an edge of plate 0
    _box((3, 3, 1), (3, 3, 1)),      # point in the same plane
    _box((2, 0, 1), (3, 0, 1)),      # segment collinear with 3
    _box((0, 0, 1), (3, 3, 1)),      # big plate containing all
    _box((0, 0, 2), (1, 1, 2)),      # plate in a parallel plane
]
# small boxes that only the reference trees of the tree-vs-tree queries use (indices 8-11; the operation alphabets range over the
# first <= 8 boxes): clusters lying inside one or several of the explored boxes
BOXES += [_box((0.25, 0.25, 0.25), (0.5, 0.5, 0.5)), _box((1.25, 0.25, 0.25), (1.5, 0.5, 0.5)), _box((2.5, 2.5, 2.5), (2.75, 2.75, 2.75)),
          _box((1.6, 0.6, 0.6), (1.8, 0.8, 0.8))]
FLAT_BOXES += [_box((0.25, 0.25, 1), (0.5, 0.5, 1)), _box((2.25, 0.25, 1), (2.5, 0.5, 1)), _box((1.25, 1.25, 1), (1.5, 1.5, 1)),
               _box((1.6, 0.2, 1), (1.8, 0.4, 1))]
def _dec(b):
    """The same box on a 0.1 grid shifted by 0.3: touching faces keep bit-equal (non-dyadic) coordinates."""
    return np.ascontiguousarray(np.asarray(b, dtype=float) * 0.1 + 0.3)


DEC_BOXES = [_dec(b) for b in BOXES]
BOXSETS = {"std": BOXES, "flat": FLAT_BOXES, "dec": DEC_BOXES}
_ACTIVE = ["std"]


def boxes():
    return BOXSETS[_ACTIVE[0]]


QUERIES = [
    _box((0, 0, 0), (1, 1, 1)), _box((1, 1, 1), (1, 1, 1)), _box((2, 2, 2), (3, 3, 3)),
    _box((-1, -1, -1), (0, 0, 0)), _box((-5, -5, -5), (5, 5, 5)), _box((4, 4, 4), (5, 5, 5)),
    _box((0.25, 0.25, 0.25), (0.5, 0.5, 0.5)), _box((3, 3, 3), (4, 4, 4)), _box((2, 0, 2), (2, 0, 2)),
    _box((-2, -2, -2), (-1, -1, -1)), _box((1, 0, 0), (1, 1, 1)), _box((0, 0, 1.5), (3, 3, 1.5)),
    _box((-2.5, -2.5, -2.5), (-2.5, -2.5, -2.5)), _box((1.0000001, 0, 0), (2, 1, 1)),
    _box((0, 0, 1), (0.5, 0.5, 1)), _box((2.5, 0, 0), (2.5, 0, 3)), _box((0, 0, 1.5), (3, 3, 2.5)), _box((1.5, 0.5, 1), (1.5, 0.5, 1)),
]


_DEC_QUERIES = []


def queries():
    if _ACTIVE[0] == "dec":
        if not _DEC_QUERIES:
            _DEC_QUERIES.extend(_dec(q) for q in QUERIES)
        return _DEC_QUERIES
    return QUERIES


def _ops(nb, max_batch, with_dups=True, all_perms=True, data_variants=True):
    """Operation alphabet. op = (kind, boxes tuple, mode, perm or None, with_data)."""
    ops = [("batch", (), "none", None, False)]
    for b in range(nb):
        ops.append(("single", (b,), "none", None, True))
    for b, pv in ((0, "0"), (1, "''"), (0, "F")):   # falsy payloads are legal external data
        ops.append(("single", (b,), "none", None, pv))
    for k in range(2, max_batch + 1):
        tuples = list(itertools.permutations(range(nb), k))
        if with_dups and k == 2:
            tuples += [(b, b) for b in range(nb)]
        for t in tuples:
            for wd in ((True, False) if data_variants else (True,)):
                ops.append(("batch", t, "none", None, wd))
                ops.append(("batch", t, "sort", None, wd))
            perms = list(itertools.permutations(range(k))) if all_perms else [tuple(reversed(range(k)))]
            for p in perms:
                ops.append(("batch", t, "shuffle", p, True))
    # a batch of size 1 through insert_aabbs with sort / without data
    for b in range(nb):
        ops.append(("batch", (b,), "sort", None, False))
    return ops


def alphabet(name):
    if name == "full5":      # depth 2
        return _ops(5, 2) + [o for o in _ops(5, 3, data_variants=False) if len(o[1]) == 3 and o[1][0] < o[1][1]]
    if name == "full6":      # depth 2
        return _ops(6, 2) + [o for o in _ops(6, 3, data_variants=False) if len(o[1]) == 3 and o[1][0] < o[1][1]]
    if name == "red4":       # depth 3
        return _ops(4, 2, all_perms=False, data_variants=False)
    if name == "red":        # depth 3
        return _ops(5, 2, all_perms=False, data_variants=False)
    if name == "tiny4":      # depth 3
        return [o for o in _ops(4, 2, with_dups=False, all_perms=False, data_variants=False) if o[2] != "shuffle" and o[4] in (True, False)]
    if name == "pairs8":     # depth 2
        return _ops(8, 2)
    raise ValueError(name)


def warmup():
    from distance3d.aabb_tree import AabbTree
    t = AabbTree()
    t.insert_aabbs(np.array(BOXES[:3]), [1, 2, 3], "sort")
    t.insert_aabb(BOXES[3], 4)
    t.overlaps_aabb(QUERIES[0])
    t.overlaps_aabb_tree(t)


def enumerate_states(tier, seed):
    states = []
    if tier == "quick":
        plan = [("full5", 2), ("red4", 3)]
    else:
        plan = [("full6", 2), ("red", 3), ("pairs8", 2)]
    for name, depth in plan:
        n = len(alphabet(name))
        for first in range(n):
            states.append({"alphabet": name, "depth": depth, "first": first, "boxes": "std"})
    # the same searches over a family of degenerate (zero-volume, coplanar, collinear) boxes
    for name, depth in ((("red", 2), ("tiny4", 3)) if tier == "quick" else (("full5", 2), ("red4", 3))):
        n = len(alphabet(name))
        for first in range(n):
            states.append({"alphabet": name, "depth": depth, "first": first, "boxes": "flat"})
    # and over the same boxes on a non-dyadic 0.1 grid (exactly touching faces with coordinates that are not exact in binary)
    for name, depth in ((("red4", 2),) if tier == "quick" else (("red", 2), ("tiny4", 3))):
        n = len(alphabet(name))
        for first in range(n):
            states.append({"alphabet": name, "depth": depth, "first": first, "boxes": "dec"})
    meta = {"bound_completed": "; ".join("all histories of <= %d operations over alphabet '%s' (%d operations)" %
                                         (d, n, len(alphabet(n))) for n, d in plan),
            "exhaustive": True}
    return states, meta


def _viol(kind, cls, detail):
    return {"kind": kind, "entry": "AabbTree", "sig": "AabbTree:%s:%s" % (kind, cls), "detail": detail}


class Model:
    """Reference: rows of inserted leaves."""
    def __init__(self):
        self.leaves = []   # (row, box, payload, insert_index)
        self.filled = 0
        self.count = 0

    def copy(self):
        m = Model()
        m.leaves = list(self.leaves)
        m.filled = self.filled
        m.count = self.count
        return m

    def apply(self, op):
        kind, bx, mode, perm, wd = op
        n = len(bx)
        if n == 0:
            return
        base = self.filled
        for k, b in enumerate(bx):
            payload = _payload(wd, self.count + k, b)
            self.leaves.append((base + k, boxes()[b], payload, self.count + k))
        self.count += n
        nl = len(self.leaves)
        self.filled = 2 * nl - 1


def _payload(wd, count, b):
    if wd is True:
        return ("p", count, b)
    if wd is False:
        return None
    return {"0": 0, "''": "", "F": False}[wd]


def _ovl(a, b):
    return bool(np.all(a[:, 0] <= b[:, 1]) and np.all(a[:, 1] >= b[:, 0]))


def apply_impl(tree, op, count):
    kind, bx, mode, perm, wd = op
    if kind == "single":
        tree.insert_aabb(boxes()[bx[0]].copy(), _payload(wd, count, bx[0]))
        return
    arr = np.array([boxes()[b] for b in bx], dtype=float).reshape(len(bx), 3, 2)
    data = [_payload(wd, count + k, b) for k, b in enumerate(bx)] if wd else None
    if mode == "shuffle":
        orig = np.random.shuffle

        def seam(x):
            x[:] = x[list(perm)]
        np.random.shuffle = seam
        try:
            tree.insert_aabbs(arr, data, "shuffle")
        finally:
            np.random.shuffle = orig
    else:
        tree.insert_aabbs(arr, data, mode)


def canon(tree):
    return (int(tree.root), int(tree.filled_len), tree.nodes.tobytes(), tree.aabbs.tobytes(),
            repr(tree.external_data_list), repr(tree.insert_index_list))


def check_invariants(tree, model, cls, hist_desc, viol):
    n = len(model.leaves)
    nodes, aabbs = tree.nodes, tree.aabbs
    def bad(kind, **d):
        viol.append(_viol(kind, cls, dict(d, history=hist_desc)))
        return False
    if n == 0:
        if tree.root != -1 or tree.filled_len != 0:
            return bad("empty_tree_state", root=int(tree.root))
        return True
    if tree.filled_len != 2 * n - 1 or len(nodes) != tree.filled_len or len(aabbs) != tree.filled_len \
            or len(tree.external_data_list) != tree.filled_len or len(tree.insert_index_list) != tree.filled_len:
        return bad("bookkeeping_lengths", filled_len=int(tree.filled_len), leaves=n, nodes=len(nodes), aabbs=len(aabbs),
                   ext=len(tree.external_data_list), idx=len(tree.insert_index_list))
    root = int(tree.root)
    if not (0 <= root < tree.filled_len) or nodes[root, 0] != -1:
        return bad("root", root=root)
    # traversal
    seen = set()
    stack = [root]
    leaves_found = []
    while stack:
        i = stack.pop()
        if i in seen or not (0 <= i < tree.filled_len):
            return bad("cycle_or_range", node=int(i))
        seen.add(i)
        typ = nodes[i, 3]
        if typ == 1:
            leaves_found.append(i)
        elif typ == 2:
            l, r = int(nodes[i, 1]), int(nodes[i, 2])
            if not (0 <= l < tree.filled_len and 0 <= r < tree.filled_len) or nodes[l, 0] != i or nodes[r, 0] != i or l == r:
                return bad("child_links", node=int(i), left=l, right=r)
            u = np.stack([np.minimum(aabbs[l][:, 0], aabbs[r][:, 0]), np.maximum(aabbs[l][:, 1], aabbs[r][:, 1])], axis=1)
            if not np.array_equal(u, aabbs[i]):
                return bad("branch_box_not_union", node=int(i))
            stack += [l, r]
        else:
            return bad("node_type", node=int(i), type=int(typ))
    if len(seen) != tree.filled_len:
        return bad("unreachable_nodes", reachable=len(seen), filled_len=int(tree.filled_len))
    exp_rows = sorted(r for r, _, _, _ in model.leaves)
    if sorted(leaves_found) != exp_rows:
        return bad("leaf_rows", found=sorted(leaves_found), expected=exp_rows)
    for r, box, payload, idx in model.leaves:
        if not np.array_equal(aabbs[r], box):
            return bad("leaf_box", row=r)
        if tree.external_data_list[r] != payload or tree.insert_index_list[r] != idx:
            return bad("payload_alignment", row=r, got=[repr(tree.external_data_list[r]), tree.insert_index_list[r]],
                       expected=[repr(payload), idx])
    exp_root = np.stack([np.min([b[:, 0] for _, b, _, _ in model.leaves], axis=0),
                         np.max([b[:, 1] for _, b, _, _ in model.leaves], axis=0)], axis=1)
    if not np.array_equal(np.asarray(tree.get_root_aabb()), exp_root):
        return bad("root_aabb")
    return True


def check_queries(tree, model, cls, hist_desc, viol, counters):
    for qi, q in enumerate(queries()):
        exp = sorted((repr(p), idx) for _, b, p, idx in model.leaves if _ovl(b, q))
        counters["q"] += 1
        try:
            flag, ov = tree.overlaps_aabb(q.copy())
        except Exception as e:  # noqa
            viol.append(_viol("query_exception:" + type(e).__name__, cls + (":empty_tree" if not model.leaves else ""),
                              {"history": hist_desc, "query": qi, "exc": repr(e)[:200]}))
            continue
        ov = [int(i) for i in np.asarray(ov).ravel()]
        try:
            got = sorted((repr(tree.external_data_list[i]), tree.insert_index_list[i]) for i in ov)
        except Exception as e:  # noqa
            viol.append(_viol("query_index_out_of_range", cls, {"history": hist_desc, "query": qi, "indices": ov}))
            continue
        if got != exp or bool(flag) != (len(exp) > 0) or len(set(ov)) != len(ov):
            kind = "query_missing" if len(got) < len(exp) else "query_spurious_or_duplicate" if len(got) > len(exp) else "query_wrong_payload"
            viol.append(_viol(kind, cls + (":empty_tree" if not model.leaves else ""),
                              {"history": hist_desc, "query": qi, "got": got, "expected": exp, "flag": bool(flag)}))
            return


_REF_TREES = None
REF_HISTORIES = [
    [],
    [("single", (0,), "none", None, True)],
    [("batch", (1, 2), "none", None, True)],
    [("batch", (3, 7, 4), "none", None, True)],
    [("single", (5,), "none", None, True), ("batch", (2, 0, 6), "none", None, False)],
    [("batch", (0, 1, 2), "none", None, True), ("single", (3,), "none", None, True), ("single", (7,), "none", None, True)],
    [("single", (8,), "none", None, True)],
    [("batch", (8, 10, 9), "none", None, True)],
    [("batch", (9, 11), "none", None, True)],      # two small boxes inside box 1 only (std) / between the plates (flat)
]


def ref_trees():
    global _REF_TREES
    if _REF_TREES is None:
        from distance3d.aabb_tree import AabbTree
        out = []
        for h in REF_HISTORIES:
            t, m = AabbTree(), Model()
            for op in h:
                apply_impl(t, op, m.count)
                m.apply(op)
            out.append((t, m))
        _REF_TREES = out
    return _REF_TREES


def check_tree_pairs(tree, model, cls, hist_desc, viol, counters):
    for ri, (rt, rm) in enumerate(ref_trees()):
        for direction in (0, 1):
            t1, m1, t2, m2 = (tree, model, rt, rm) if direction == 0 else (rt, rm, tree, model)
            exp = sorted((i1, i2) for _, b1, _, i1 in m1.leaves for _, b2, _, i2 in m2.leaves if _ovl(b1, b2))
            counters["tt"] += 1
            empty = (not m1.leaves) or (not m2.leaves)
            try:
                flag, o1, o2, pairs = t1.overlaps_aabb_tree(t2)
            except Exception as e:  # noqa
                viol.append(_viol("treequery_exception:" + type(e).__name__, cls + (":empty_tree" if empty else ""),
                                  {"history": hist_desc, "ref_tree": ri, "direction": direction, "exc": repr(e)[:200]}))
                continue
            try:
                got = sorted((t1.insert_index_list[int(a)], t2.insert_index_list[int(b)]) for a, b in pairs)
                g1 = sorted(t1.insert_index_list[int(a)] for a in np.asarray(o1).ravel())
                g2 = sorted(t2.insert_index_list[int(a)] for a in np.asarray(o2).ravel())
            except Exception as e:  # noqa
                viol.append(_viol("treequery_index_out_of_range", cls + (":empty_tree" if empty else ""),
                                  {"history": hist_desc, "ref_tree": ri, "direction": direction}))
                continue
            if got != exp or bool(flag) != (len(exp) > 0) or g1 != sorted(set(a for a, _ in exp)) or g2 != sorted(set(b for _, b in exp)):
                kind = "treequery_missing" if len(got) < len(exp) else "treequery_spurious_or_duplicate" if len(got) > len(exp) else "treequery_wrong"
                viol.append(_viol(kind, cls + (":empty_tree" if empty else ""),
                                  {"history": hist_desc, "ref_tree": ri, "direction": direction, "got": got, "expected": exp}))
                return


def classify(hist):
    """Signature class of a history: what kind of operation sequence it is."""
    later_sort = any(op[2] == "sort" and len(op[1]) > 0 for op in hist[1:]) and any(len(op[1]) > 0 for op in hist[:1])
    # a sort batch after at least one non-empty operation
    seen_nonempty = False
    later_sort = False
    for op in hist:
        if op[2] == "sort" and len(op[1]) > 0 and seen_nonempty:
            later_sort = True
        if len(op[1]) > 0:
            seen_nonempty = True
    if later_sort:
        return "sort_batch_on_nonempty_tree"
    return "other"


def explore(alpha, depth, first, do_pairs=True):
    from distance3d.aabb_tree import AabbTree
    viol = []
    counters = {"q": 0, "tt": 0, "trans": 0, "states": 0, "nontrivial": 0}
    seen = set()
    sample = None

    def build(hist):
        t, m = AabbTree(), Model()
        for op in hist:
            apply_impl(t, op, m.count)
            m.apply(op)
        return t, m

    frontier = [[alpha[first]]]
    level = 1
    hist_kinds = {}
    while frontier:
        nxt = []
        for hist in frontier:
            hd = [list(map(lambda x: list(x) if isinstance(x, tuple) else x, op)) for op in hist]
            cls = classify(hist)
            try:
                t, m = build(hist)
            except Exception as e:  # noqa
                viol.append(_viol("insert_exception:" + type(e).__name__, cls, {"history": hd, "exc": repr(e)[:200]}))
                counters["trans"] += 1
                continue
            counters["trans"] += 1
            k = canon(t)
            if k in seen:
                continue
            seen.add(k)
            counters["states"] += 1
            if len(m.leaves) >= 2 and len(hist) >= 2:
                counters["nontrivial"] += 1
            ok = check_invariants(t, m, cls, hd, viol)
            if ok:
                check_queries(t, m, cls, hd, viol, counters)
                if do_pairs:
                    check_tree_pairs(t, m, cls, hd, viol, counters)
            hist_kinds[cls] = hist_kinds.get(cls, 0) + 1
            if sample is None and len(hist) == depth and len(m.leaves) >= 3:
                sample = {"history": hd, "leaves": len(m.leaves), "root": int(t.root), "nodes": t.nodes.tolist()}
            if len(hist) < depth and ok:
                for op in alpha:
                    nxt.append(hist + [op])
        frontier = nxt
        level += 1
    return viol, counters, hist_kinds, sample


def run_state(desc):
    global _REF_TREES
    if _ACTIVE[0] != desc.get("boxes", "std"):
        _ACTIVE[0] = desc.get("boxes", "std")
        _REF_TREES = None
    alpha = alphabet(desc["alphabet"])
    viol, c, hk, sample = explore(alpha, desc["depth"], desc["first"])
    # collapse: report at most 3 violations per signature from this shard
    out, per = [], {}
    for v in viol:
        per[v["sig"]] = per.get(v["sig"], 0) + 1
        if per[v["sig"]] <= 3:
            out.append(v)
    return {"viol": out, "n_eval": c["q"] + c["tt"] + c["trans"], "n_trans": c["trans"], "traces": c["trans"],
            "nontrivial_n": c["nontrivial"],
            "hist": {"history_class": hk, "distinct_states_per_alphabet": {desc["alphabet"]: c["states"]},
                     "box_queries": {"n": c["q"]}, "tree_tree_queries": {"n": c["tt"]}},
            "sample": sample}


# ------------------------------------------------------------------ bounds-checked / interpreted re-runs

def sub_states(mode, tier):
    """Reduced exploration used for the NUMBA_BOUNDSCHECK=1 and interpreted runs."""
    alpha = alphabet("red4")
    return [{"alphabet": "red4", "depth": 2, "first": i, "boxes": bs} for i in range(len(alpha)) for bs in ("std", "flat")]


def finalize(ctx):
    from .. import subrun
    for mode in ("boundscheck", "nojit"):
        res = subrun.run("c05", mode, ctx.tier, ctx.seed)
        ctx.extra["submode_%s" % mode] = {k: res[k] for k in ("states", "transitions", "evaluations", "wall_s")}
        ctx.n_eval += res["evaluations"]
        ctx.n_trans += res["transitions"]
        for desc, v in res["viol"]:
            v = dict(v)
            v["sig"] = v["sig"] + ":" + mode
            v["global"] = True
            v["detail"] = dict(v.get("detail") or {}, mode=mode)
            ctx.viol.append((dict(desc, mode=mode), v))
