"""C06 - BVH broad phase plus narrow phase finds exactly the brute-force collisions.

Explicit-state exploration of the joint-configuration graph of four generated URDF robots (3-link chain, gripper on a far rotated base with child-first link order and prefix link names,
4-link chain with prismatic joints, branching tree with asymmetric generated whitelists; sphere / box /
cylinder geometry from the URDF plus capsule, cone and mesh colliders attached with add_collider).
Transitions: set_joint(j, v) followed by update_collider_poses(); every edge of the configuration graph
(all ordered pairs of configurations that differ in one joint) is taken on a live BVH, plus all move
sequences of length <= 3 from the initial configuration.  In every state: collider poses = transform
manager, the three broad-phase queries = all-pairs model over collider.aabb(), detect between the lower and
upper set of the statement, detect_any = exists, and equivalence with a BVH built fresh at that configuration.
"""
import itertools

import numpy as np

from .. import robots
from .. import scenes as sc

PROPERTY = "C06"
TECHNIQUE = ("explicit-state exploration of the joint-configuration graph (every edge, sequences <= 3) on live "
             "BoundingVolumeHierarchy objects vs an all-pairs reference model and a freshly built BVH")
RULE = ("state = (robot, joint configuration) reached through a move from a predecessor configuration; transition = set_joint + "
        "update_collider_poses; per state: pose check, aabb_overlapping_colliders for every own collider (2 whitelists) and 6 external "
        "queries, aabb_overlapping_with_self, aabb_overlapping_with_other_bvh, detect, detect_any, fresh-BVH equivalence; "
        "non-trivial = state with at least one overlapping AABB pair outside the whitelists; distinct = distinct (robot, predecessor, configuration)")
ASSUMPTIONS = ["pytransform3d's UrdfTransformManager is trusted environment", "the narrow phase inside the oracle is the same gjk_intersection applied to all pairs (GJK's own correctness is C02)",
               "AABBs are collider.aabb() of the live colliders (their correctness is C04)"]
CHUNK = 1
STATE_TIMEOUT = 900.0


def warmup():
    from distance3d import gjk
    import distance3d.broad_phase  # noqa
    import distance3d.self_collision  # noqa
    for t in ("sphere", "box", "cylinder", "capsule", "cone", "mesh"):
        a, _ = sc.build(t, 0, 0, np.zeros(3))
        b, _ = sc.build("box", 0, 0, np.array([0.3, 0.1, 0.0]))
        gjk.gjk_intersection(a, b)


def enumerate_states(tier, seed):
    states = []
    for name, r in robots.ROBOTS.items():
        joints = sorted(r["joints"])
        configs = list(itertools.product(*[range(len(r["joints"][j])) for j in joints]))
        # shard by predecessor configuration
        for ci in range(len(configs)):
            states.append({"robot": name, "pred": ci, "mode": "edges"})
        n_moves = sum(len(r["joints"][j]) for j in joints)
        for m in range(n_moves):
            states.append({"robot": name, "pred": 0, "mode": "seq3", "first": m})
        if tier == "thorough":
            jt = r["joints_thorough"]
            nc = 1
            for j in joints:
                nc *= len(jt[j])
            for ci in range(nc):
                states.append({"robot": name, "pred": ci, "mode": "edges", "dense": 1})
    return states, {"bound_completed": "every edge of the configuration graph (single-joint moves between all lattice configurations) of 4 robots "
                                       "(27, 54, 36 and 12 configurations) + all move sequences of length <= 3 from the initial configuration"
                                       + ("; thorough: + every edge of the finer lattices (125, 500, 400 and 120 configurations)" if tier == "thorough" else ""),
                    "exhaustive": True}


def _viol(entry, kind, cls, detail):
    return {"kind": kind, "entry": entry, "sig": "%s:%s:%s" % (entry, kind, cls), "detail": detail}


def build(name, extra=True):
    from pytransform3d.urdf import UrdfTransformManager
    from distance3d.broad_phase import BoundingVolumeHierarchy
    from distance3d import colliders as C
    r = robots.ROBOTS[name]
    tm = UrdfTransformManager()
    tm.load_urdf(r["urdf"])
    G = base_of(name)
    bvh = BoundingVolumeHierarchy(tm, name) if G is None else BoundingVolumeHierarchy(tm, name, G)
    bvh.fill_tree_with_colliders(tm, fill_self_collision_whitelists=True)
    bvh._wl_viol = whitelist_structure_violations(name, bvh)
    if extra and r.get("extras", True):
        links = [n for n in tm.nodes if not n.startswith("collision:") and n != name and n != "origin"]
        last = links[-1]
        first = links[0]
        v, tri = sc.mesh_data("octa")
        c0 = np.zeros(3)
        E = np.eye(4)     # one pose array object shared by all added colliders, as in `I = np.eye(4); Capsule(I, ...); Cone(I, ...)`
        specs = [("extra:capsule", last, np.array([0.0, 0.0, 0.15]), C.Capsule(E, 0.05, 0.2)),
                 ("extra:cone", first, np.array([0.35, 0.0, 0.3]), C.Cone(E, 0.1, 0.25)),
                 ("extra:mesh", last, np.array([0.0, 0.2, 0.0]), C.MeshGraph(E, np.ascontiguousarray(v * 0.25), tri)),
                 # two spheres built from one placeholder centre array (round 3: in-place write into the constructor's centre)
                 ("extra:sphere_a", first, np.array([0.0, -0.3, 0.1]), C.Sphere(c0, 0.06)),
                 ("extra:sphere_b", last, np.array([0.1, 0.0, -0.1]), C.Sphere(c0, 0.05))]
        for frame, parent, off, col in specs:
            T = np.eye(4)
            T[:3, 3] = off
            tm.add_transform(frame, parent, T)
            bvh.add_collider(frame, col)
            attached = [f for f in bvh.self_collision_whitelists_ if f.startswith("collision:%s/" % parent)]
            bvh.self_collision_whitelists_[frame] = [frame] + attached
            for f in attached:
                bvh.self_collision_whitelists_[f] = list(bvh.self_collision_whitelists_[f]) + [frame]
        # two extra colliders on the same link whitelist each other
        for a, b in (("extra:capsule", "extra:mesh"),):
            bvh.self_collision_whitelists_[a].append(b)
            bvh.self_collision_whitelists_[b].append(a)
        bvh.update_collider_poses()
    return tm, bvh


def base_of(name):
    b = robots.ROBOTS[name].get("base")
    return None if b is None else sc.pose(b[0], np.array(b[1], dtype=float))


def whitelist_structure_violations(name, bvh):
    """Generated whitelists vs the kinematic structure: a frame must whitelist the frames of its own link and of the parent link,
    and may additionally whitelist only frames of child links (which child of a branching link is a known asymmetry)."""
    par = robots.ROBOTS[name]["parents"]
    frames = list(bvh.colliders_)
    link = {f: f[len("collision:"):].rsplit("/", 1)[0] for f in frames}
    out = []
    for f in frames:
        l = link[f]
        must = {g for g in frames if link[g] == l or link[g] == par.get(l)}
        may = must | {g for g in frames if par.get(link[g]) == l}
        wl = set(bvh.self_collision_whitelists_.get(f, ()))
        if not must <= wl:
            out.append(_viol("self_collision_whitelists", "own_or_parent_link_not_whitelisted", name, {"frame": f, "missing": sorted(must - wl)}))
        if not (wl & set(frames)) <= may:
            out.append(_viol("self_collision_whitelists", "non_neighbour_whitelisted", name, {"frame": f, "extra": sorted((wl & set(frames)) - may)}))
    return out


def other_bvh(G=None):
    from pytransform3d.transform_manager import TransformManager
    from distance3d.broad_phase import BoundingVolumeHierarchy
    tm = TransformManager()
    b = BoundingVolumeHierarchy(tm, "world")
    for i, (t, c) in enumerate([("box", (0.5, 0.0, 0.5)), ("sphere", (0.0, 0.4, 0.9)), ("cylinder", (-0.6, -0.2, 0.3)), ("box", (3.0, 3.0, 3.0))]):
        T = np.eye(4)
        T[:3, 3] = c
        if G is not None:
            T = G @ T
        tm.add_transform("obst%d" % i, "world", T)
        col, _ = sc.build_explicit(t, sc.SIZES[t][3 if t == "box" else 0], np.ascontiguousarray(T))
        b.add_collider("obst%d" % i, col)
    b.update_collider_poses()
    return b


def floor_bvh(G=None):
    """A second environment whose only box TOUCHES the robots' base from below with bit-equal coordinates (top face z = 0 in the base
    frame): the root boxes of the two trees touch exactly."""
    from pytransform3d.transform_manager import TransformManager
    from distance3d.broad_phase import BoundingVolumeHierarchy
    from distance3d import colliders as C
    tm = TransformManager()
    b = BoundingVolumeHierarchy(tm, "floor_world")
    T = np.eye(4)
    T[:3, 3] = [0.0, 0.0, -0.125]
    if G is not None:
        T = G @ T
    tm.add_transform("floor", "floor_world", T)
    b.add_collider("floor", C.Box(np.ascontiguousarray(T), np.array([4.0, 4.0, 0.25])))
    b.update_collider_poses()
    return b


def queries(G=None):
    qs = []
    for t, s, c in [("box", 0, (0.3, 0.0, 0.6)), ("sphere", 0, (0.0, 0.0, 1.2)), ("box", 3, (0.6, 0.3, 0.3)), ("sphere", 3, (5.0, 5.0, 5.0)),
                    ("cylinder", 0, (0.0, -0.4, 0.5)), ("box", 2, (0.0, 0.0, 0.0))]:
        T = np.eye(4)
        T[:3, 3] = c
        if G is not None:
            T = G @ T
        qs.append(sc.build_explicit(t, sc.SIZES[t][s], np.ascontiguousarray(T))[0])
    return qs


def _ovl(a, b):
    return bool(np.all(a[:, 0] <= b[:, 1]) and np.all(a[:, 1] >= b[:, 0]))


def set_config(tm, bvh, r, joints, cfg, key="joints"):
    for j, k in zip(joints, cfg):
        tm.set_joint(j, r[key][j][k])
    bvh.update_collider_poses()


def observe(tm, bvh, other, qs):
    """All observations of a BVH state as comparable python values."""
    from distance3d import self_collision
    obs = {}
    frames = list(bvh.colliders_)
    for qi, q in enumerate(qs):
        obs["q%d" % qi] = sorted(bvh.aabb_overlapping_colliders(q).keys())
    for f in frames:
        obs["own:" + f] = sorted(bvh.aabb_overlapping_colliders(bvh.colliders_[f]).keys())
        obs["ownwl:" + f] = sorted(bvh.aabb_overlapping_colliders(bvh.colliders_[f], whitelist=bvh.self_collision_whitelists_[f]).keys())
    pairs = bvh.aabb_overlapping_with_self()
    obs["self_pairs"] = sorted((a[0], b[0]) for a, b in pairs)
    other, floor = other if isinstance(other, tuple) else (other, None)
    pairs = bvh.aabb_overlapping_with_other_bvh(other)
    obs["other_pairs"] = sorted((a[0], b[0]) for a, b in pairs)
    if floor is not None:
        obs["floor_pairs"] = sorted((a[0], b[0]) for a, b in bvh.aabb_overlapping_with_other_bvh(floor))
        obs["floor_pairs_reverse"] = sorted((b[0], a[0]) for a, b in floor.aabb_overlapping_with_other_bvh(bvh))
    obs["detect"] = dict(self_collision.detect(bvh))
    obs["detect_any"] = bool(self_collision.detect_any(bvh))
    return obs


def check_state(tm, bvh, other, qs, cls, where, viol, seen):
    from distance3d import gjk

    def add(v):
        if v["sig"] not in seen:
            seen.add(v["sig"])
            viol.append(v)
    frames = list(bvh.colliders_)
    # 1. poses
    for f in frames:
        T = tm.get_transform(f, "origin")
        c = bvh.colliders_[f]
        c2o = np.asarray(c.collider2origin(), dtype=float)
        ok = np.allclose(c2o[:3, 3], T[:3, 3], rtol=0, atol=1e-12) and (type(c).__name__ == "Sphere" or np.allclose(c2o[:3, :3], T[:3, :3], rtol=0, atol=1e-12))
        if not ok:
            add(_viol("update_collider_poses", "pose_differs_from_transform_manager", cls, {"frame": f, "where": where}))
    try:
        obs = observe(tm, bvh, other, qs)
    except Exception as e:  # noqa
        add(_viol("bvh_queries", "exception:" + type(e).__name__, cls, {"exc": repr(e)[:300], "where": where}))
        return None, 0
    boxes = {f: np.asarray(bvh.colliders_[f].aabb(), dtype=float) for f in frames}
    # 2. box queries
    for qi, q in enumerate(qs):
        qb = np.asarray(q.aabb(), dtype=float)
        exp = sorted(f for f in frames if _ovl(boxes[f], qb))
        if obs["q%d" % qi] != exp:
            add(_viol("aabb_overlapping_colliders", "differs_from_all_pairs_model", cls, {"query": qi, "got": obs["q%d" % qi], "expected": exp, "where": where}))
    nontrivial = 0
    for f in frames:
        exp = sorted(g for g in frames if _ovl(boxes[g], boxes[f]))
        if obs["own:" + f] != exp:
            add(_viol("aabb_overlapping_colliders", "differs_from_all_pairs_model", cls, {"frame": f, "got": obs["own:" + f], "expected": exp, "where": where}))
        wl = set(bvh.self_collision_whitelists_[f])
        expw = sorted(g for g in exp if g not in wl)
        if obs["ownwl:" + f] != expw:
            add(_viol("aabb_overlapping_colliders", "whitelist_filter_wrong", cls, {"frame": f, "got": obs["ownwl:" + f], "expected": expw, "where": where}))
        nontrivial += len(expw)
    # 3. self pairs / other pairs
    exp = sorted((f, g) for f in frames for g in frames if f != g and _ovl(boxes[f], boxes[g]))
    if obs["self_pairs"] != exp:
        add(_viol("aabb_overlapping_with_self", "differs_from_all_pairs_model", cls, {"got": obs["self_pairs"], "expected": exp, "where": where}))
    other_all = other if isinstance(other, tuple) else (other, None)
    other = other_all[0]
    oboxes = {f: np.asarray(c.aabb(), dtype=float) for f, c in other.colliders_.items()}
    exp = sorted((f, g) for f in frames for g in oboxes if _ovl(boxes[f], oboxes[g]))
    if obs["other_pairs"] != exp:
        add(_viol("aabb_overlapping_with_other_bvh", "differs_from_all_pairs_model", cls, {"got": obs["other_pairs"], "expected": exp, "where": where}))
    if "floor_pairs" in obs:
        fl = other_all[1]
        fboxes = {f: np.asarray(c.aabb(), dtype=float) for f, c in fl.colliders_.items()}
        exp = sorted((f, g) for f in frames for g in fboxes if _ovl(boxes[f], fboxes[g]))
        for key in ("floor_pairs", "floor_pairs_reverse"):
            if obs[key] != exp:
                add(_viol("aabb_overlapping_with_other_bvh", "differs_from_all_pairs_model:touching_environment", cls,
                          {"direction": key, "got": obs[key], "expected": exp, "where": where}))
    # 4. narrow phase: all pairs
    coll = {}
    for f in frames:
        for g in frames:
            coll[(f, g)] = bool(gjk.gjk_intersection(bvh.colliders_[f], bvh.colliders_[g]))
    wl = {f: set(bvh.self_collision_whitelists_[f]) for f in frames}
    # a colliding pair whose AABBs miss each other by less than 1e-9*L is grazing contact inside the AABB tolerance of
    # C04 (the broad phase may legitimately drop it): such pairs are not required, only allowed
    def gap(a, b):
        return float(max(np.max(a[:, 0] - b[:, 1]), np.max(b[:, 0] - a[:, 1])))
    Ls = max(1.0, max(float(np.max(np.abs(bx))) for bx in boxes.values()))
    robust = {(f, g): not (0.0 < gap(boxes[f], boxes[g]) <= 1e-9 * Ls) for f in frames for g in frames}
    lower = {f for f in frames if any(coll[(f, g)] and robust[(f, g)] and g not in wl[f] for g in frames)}
    lower_any = lower
    upper = {f for f in frames if any(coll[(f, g)] and (g not in wl[f] or f not in wl[g]) for g in frames)}
    det = obs["detect"]
    marked = {f for f, v in det.items() if v}
    if set(det) != set(frames):
        add(_viol("self_collision.detect", "frames_missing_in_result", cls, {"got": sorted(det), "where": where}))
    if not lower <= marked:
        add(_viol("self_collision.detect", "missed_collision", cls, {"missed": sorted(lower - marked), "marked": sorted(marked), "where": where}))
    if not marked <= upper:
        add(_viol("self_collision.detect", "phantom_collision", cls, {"phantom": sorted(marked - upper), "where": where}))
    any_upper = any(coll[(f, g)] and g not in wl[f] for f in frames for g in frames)
    if (bool(lower) and not obs["detect_any"]) or (obs["detect_any"] and not any_upper):
        add(_viol("self_collision.detect_any", "differs_from_exists", cls, {"got": obs["detect_any"], "required": bool(lower), "allowed": any_upper, "where": where}))
    return obs, nontrivial + len(lower)


def run_state(desc):
    name = desc["robot"]
    r = robots.ROBOTS[name]
    joints = sorted(r["joints"])
    key = "joints_thorough" if desc.get("dense") else "joints"
    configs = list(itertools.product(*[range(len(r[key][j])) for j in joints]))
    other = (other_bvh(base_of(name)), floor_bvh(base_of(name)))
    qs = queries(base_of(name))
    tm, bvh = build(name)
    viol, seen = [], set()
    for v in bvh._wl_viol:
        if v["sig"] not in seen:
            seen.add(v["sig"])
            viol.append(v)
    n_trans, n_states, nontrivial = 0, 0, 0
    fresh_cache = {}
    hist = {"robot": {name: 0}}

    def fresh_obs(cfg):
        if cfg not in fresh_cache:
            tm2, bvh2 = build(name)
            set_config(tm2, bvh2, r, joints, cfg, key)
            fresh_cache[cfg] = observe(tm2, bvh2, other, qs)
        return fresh_cache[cfg]

    def visit(cfg, where):
        nonlocal n_states, nontrivial
        n_states += 1
        obs, nt = check_state(tm, bvh, other, qs, name, where, viol, seen)
        nontrivial += 1 if nt else 0
        if obs is not None:
            fo = fresh_obs(cfg)
            for k in fo:
                if obs.get(k) != fo[k]:
                    v = _viol("update_collider_poses", "live_bvh_differs_from_fresh_bvh", name, {"observation": k, "live": obs.get(k), "fresh": fo[k], "where": where})
                    if v["sig"] not in seen:
                        seen.add(v["sig"])
                        viol.append(v)
                    break

    if desc["mode"] == "edges":
        c1 = configs[desc["pred"]]
        succ = [c2 for c2 in configs if sum(1 for a, b in zip(c1, c2) if a != b) == 1]
        for c2 in succ:
            set_config(tm, bvh, r, joints, c1, key)
            n_trans += 1
            k = [i for i in range(len(c1)) if c1[i] != c2[i]][0]
            tm.set_joint(joints[k], r[key][joints[k]][c2[k]])
            bvh.update_collider_poses()
            n_trans += 1
            visit(c2, {"from": list(c1), "to": list(c2)})
        set_config(tm, bvh, r, joints, c1, key)
        visit(c1, {"from": "reset", "to": list(c1)})
    else:
        moves = [(j, k) for j in range(len(joints)) for k in range(len(r["joints"][joints[j]]))]
        for seq in itertools.product([moves[desc["first"]]], moves, moves):
            tm, bvh = build(name)
            cfg = [0] * len(joints)
            for step, (j, k) in enumerate(seq):
                tm.set_joint(joints[j], r["joints"][joints[j]][k])
                bvh.update_collider_poses()
                cfg[j] = k
                n_trans += 1
            visit(tuple(cfg), {"sequence": [list(m) for m in seq]})
    hist["robot"][name] = n_states
    sample = {"robot": name, "mode": desc["mode"], "pred": list(configs[desc["pred"]]), "joints": joints,
              "detect_example": fresh_cache[next(iter(fresh_cache))]["detect"] if fresh_cache else None} if desc["pred"] in (0, 5) else None
    return {"viol": viol, "n_eval": n_states * 20, "n_trans": n_trans, "traces": n_states, "nontrivial_n": nontrivial, "hist": hist, "sample": sample}
