"""C03 - support mappings: returned point belongs to the shape and is extreme.

(a) input lattice: every collider type x size x orientation x offset x margin
    x direction x direction norm (deviation-bounded in quick, full in thorough);
(b) history exploration for MeshGraph: breadth-first search over the hidden
    state (cached start vertex) x direction alphabet to closure, plus all
    query sequences of length <= 3 on a reduced direction alphabet.
"""
import itertools

import numpy as np

from .. import scenes as sc

PROPERTY = "C03"
TECHNIQUE = ("bounded-exhaustive enumeration of collider descriptor lattice x direction alphabet on the real "
             "support mappings vs closed-form support values; explicit-state BFS to closure over the mesh "
             "vertex-cache state")
RULE = ("state = (type,size,orientation,offset,margin); transitions = direction x norm queries (and for meshes: "
        "cache-state x direction, sequences <=3); non-trivial = query direction has a zero local component or is "
        "parallel/orthogonal to a shape axis, or the support set is not a single point (tie); distinct = distinct "
        "(state, direction)")
ASSUMPTIONS = ["reference support values h_K(n) are closed forms written from the definitions (mc/refmodel/shapes.py)",
               "tolerance 1e-9*L with L=max(1, largest feature size, distance of the centre from the origin)"]
CHUNK = 24
NORMS = [1.0, 1e-3, 1e3]


def warmup():
    for t in sc.TYPES:
        c, _ = sc.build(t, 0, 0, np.zeros(3))
        c.support_function(np.array([0.1, 0.2, 0.3]))
        c.aabb()


def enumerate_states(tier, seed):
    states = []
    meta = {}
    n_ori, n_off = len(sc.ROTS), len(sc.OFFSETS)
    for t in sc.TYPES:
        ns = sc.n_sizes(t)
        if tier == "thorough":
            for s, o, f, m in itertools.product(range(ns), range(n_ori), range(n_off), (0, 1)):
                states.append({"t": t, "s": s, "o": o, "f": f, "m": m})
            # dense family: 672 further orientations (cube rotations composed with tiny .. nearly-quarter turns) x 146 directions
            for s, o, f in itertools.product(range(ns), range(n_ori, len(sc.ALL_ROTS)), (0, 2)):
                states.append({"t": t, "s": s, "o": o, "f": f, "m": 0, "dense": 1})
        else:
            # all orientations x all sizes (complete), offsets and margin as deviation <= 1 plus seed slice
            seen = set()
            for s, o in itertools.product(range(ns), range(n_ori)):
                seen.add((s, o, 0, 0))
            for dev in sc.deviation_product([ns, n_ori, n_off, 2], 2):
                seen.add(dev)
            k = seed % n_off
            for s, o in itertools.product(range(ns), range(n_ori)):
                seen.add((s, o, k, (seed // n_off) % 2))
            for s, o, f, m in sorted(seen):
                states.append({"t": t, "s": s, "o": o, "f": f, "m": m})
    meta["bound_completed"] = ("thorough: full product type x size x 32 orientations x 4 offsets x margin x 30 directions x 3 norms + dense family "
                               "type x size x 672 orientations x 2 offsets x 146 directions x 3 norms"
                               if tier == "thorough" else
                               "quick: type x size x all 32 orientations complete; offsets/margin: all pairs of deviations "
                               "+ seed-selected full slice; each with 30 directions x 3 norms; mesh cache BFS to closure")
    meta["exhaustive"] = tier == "thorough"
    states += winding_states()
    meta["bound_completed"] += "; MeshGraph: all 1296 orderings of the triangle list of two tetrahedra x 4 cache states x 30 directions"
    return states, meta


# ------------------------------------------------------------------ every way to write down the triangle list of a tetrahedron
#
# MeshGraph builds its adjacency from the triangle list as given; user meshes (e.g. scipy ConvexHull(...).simplices) are not
# consistently wound.  For two tetrahedra ALL 6^4 = 1296 lists (every ordering of the three indices of each of the four faces) are
# built, and for every list the cache-state x direction graph is explored completely (4 start vertices x 30 directions).

WINDING_BLOCKS = 12


def winding_states():
    return [{"t": "winding", "mesh": name, "block": b} for name in ("tetra", "corner") for b in range(WINDING_BLOCKS)]


def run_winding(desc):
    from distance3d import colliders as C
    v, _ = sc.mesh_data(desc["mesh"])
    v = np.ascontiguousarray(v, dtype=float)
    faces = [(0, 1, 2), (0, 1, 3), (0, 2, 3), (1, 2, 3)]
    orders = list(itertools.permutations(range(3)))
    dirs = [np.ascontiguousarray(d) for d in sc.DIRS]
    T = sc.pose(5, np.array([0.5, -0.25, 0.125]))
    W = v @ T[:3, :3].T + T[:3, 3]
    hvals = [float(np.max(W @ d)) for d in dirs]
    viol, n_eval = [], 0
    allw = list(itertools.product(orders, repeat=4))
    seen = set()
    for wi, w in enumerate(allw):
        if wi % WINDING_BLOCKS != desc["block"]:
            continue
        tri = np.ascontiguousarray(np.array([[f[k] for k in o] for f, o in zip(faces, w)], dtype=np.int64))
        try:
            col = C.MeshGraph(T.copy(), v.copy(), tri)
            sf = col._support_function
            for start in range(4):
                for di, d in enumerate(dirs):
                    sf.first_idx = start
                    p = col.support_function(d)
                    n_eval += 1
                    if hvals[di] - float(p @ d) > 1e-9:
                        sig = "not_extreme"
                        if sig not in seen:
                            seen.add(sig)
                            viol.append(_viol("not_extreme", "support_function", "mesh:triangle_list_orderings",
                                              {"mesh": desc["mesh"], "triangles": tri.tolist(), "start_vertex": start, "dir": di,
                                               "gap": hvals[di] - float(p @ d)}))
        except Exception as e:  # noqa
            sig = "exception:" + type(e).__name__
            if sig not in seen:
                seen.add(sig)
                viol.append(_viol(sig, "support_function", "mesh:triangle_list_orderings", {"mesh": desc["mesh"], "triangles": tri.tolist(), "exc": repr(e)[:200]}))
    return {"viol": viol, "n_eval": n_eval, "n_trans": n_eval, "traces": n_eval, "nontrivial_n": n_eval, "hist": {"type": {"mesh_triangle_list_orderings": n_eval}}}


def _viol(kind, entry, cls, detail):
    return {"kind": kind, "entry": entry, "sig": "%s:%s:%s" % (entry, kind, cls), "detail": detail}


def scale_L(ref, centre):
    return max(1.0, ref.size(), float(np.linalg.norm(centre)))


def run_state(desc):
    if desc["t"] == "winding":
        return run_winding(desc)
    t, s, o, f, m = desc["t"], desc["s"], desc["o"], desc["f"], desc["m"]
    centre = sc.OFFSETS[f]
    mv = sc.margin_value(t, s, m)
    col, ref = sc.build(t, s, o, centre, mv)
    L = scale_L(ref, centre)
    tol = 1e-9 * L
    viol, nontrivial = [], []
    hist = {"type": {t: 0}}
    n_eval = 0
    nontrivial_n = 0
    cls = "%s%s" % (t, "+margin" if m else "")

    def check_point(p, d, entry, extra):
        nonlocal n_eval
        n_eval += 1
        p = np.asarray(p, dtype=float)
        if p.shape != (3,) or not np.all(np.isfinite(p)):
            viol.append(_viol("nonfinite", entry, cls, dict(extra, p=p)))
            return
        dist = ref.dist(p)
        if dist > tol:
            viol.append(_viol("not_member", entry, cls, dict(extra, p=p, dist=dist, tol=tol)))
        if d is not None:
            gap = ref.h(d) - float(p @ d)
            if gap > tol * float(np.linalg.norm(d)):
                viol.append(_viol("not_extreme", entry, cls, dict(extra, p=p, d=d, gap=gap, tol=tol)))

    dense = bool(desc.get("dense"))
    for di, d0 in enumerate(sc.DENSE_DIRS if dense else sc.DIRS):
        for nrm in NORMS:
            d = np.ascontiguousarray(d0 * nrm)
            try:
                p = col.support_function(d)
            except Exception as e:  # noqa
                viol.append(_viol("exception", "support_function", cls, {"d": d, "exc": repr(e)}))
                continue
            check_point(p, d, "support_function", {"dir": di, "norm": nrm})
            hist["type"][t] += 1
        # non-trivial: a zero component in the local frame (sign boundary) or tie
        ld = sc.ALL_ROTS[o].T @ d0
        if np.any(np.abs(ld) < 1e-12) or abs(abs(ld[2]) - 1) < 1e-12:
            if dense:
                nontrivial_n += 1
            else:
                nontrivial.append([t, s, o, f, m, di])
    try:
        check_point(col.first_vertex(), None, "first_vertex", {})
        check_point(col.center(), None, "center", {})
    except Exception as e:  # noqa
        viol.append(_viol("exception", "first_vertex/center", cls, {"exc": repr(e)}))

    n_trans = n_eval
    # ---------------- history part for meshes: BFS over the cached start vertex
    if t == "mesh" and m == 0 and not dense:
        sf = col._support_function
        nv = len(col.vertices)
        dirs = [np.ascontiguousarray(d) for d in sc.DIRS]
        hvals = [ref.h(d) for d in dirs]
        seen = {int(sf.first_idx)}
        frontier = [int(sf.first_idx)]
        edges = 0
        while frontier:
            nxt = []
            for start in frontier:
                for di, d in enumerate(dirs):
                    sf.first_idx = start
                    p = col.support_function(d)
                    n_eval += 1
                    edges += 1
                    end = int(sf.first_idx)
                    gap = hvals[di] - float(p @ d)
                    if gap > tol or ref.dist(p) > tol:
                        viol.append(_viol("history_dependent", "support_function", cls,
                                          {"start_vertex": start, "dir": di, "gap": gap, "end_vertex": end}))
                    if end not in seen:
                        seen.add(end)
                        nxt.append(end)
            frontier = nxt
        # unreachable cache states are still legal starting points after update_pose etc.: cover all vertices
        referenced = set(int(i) for i in np.asarray(col.triangles).ravel())    # only referenced vertices are legal cache states
        for start in sorted(referenced):
            if start in seen:
                continue
            for di, d in enumerate(dirs):
                sf.first_idx = start
                p = col.support_function(d)
                n_eval += 1
                edges += 1
                if hvals[di] - float(p @ d) > tol:
                    viol.append(_viol("history_dependent", "support_function", cls,
                                      {"start_vertex": start, "dir": di, "gap": hvals[di] - float(p @ d)}))
        hist["mesh_cache_states"] = {"%s:%d" % (sc.SIZES[t][s][0], len(seen)): 1}
        n_trans += edges
        # sequences of length <= 3 on a reduced alphabet, fresh object each time
        red = [0, 1, 7, 14, 20, 27]
        for seq in itertools.product(red, repeat=3):
            c2, _ = sc.build(t, s, o, centre, 0.0, want_ref=False)
            for di in seq:
                p = c2.support_function(dirs[di])
                n_eval += 1
                n_trans += 1
                if hvals[di] - float(p @ dirs[di]) > tol:
                    viol.append(_viol("history_dependent", "support_function", cls, {"sequence": seq, "at": di}))
                    break
    return {"viol": viol, "n_eval": n_eval, "n_trans": n_trans, "traces": n_eval, "nontrivial": nontrivial,
            "nontrivial_n": nontrivial_n, "hist": hist,
            "sample": {"desc": desc, "direction": sc.DIRS[5], "support_point": col.support_function(np.ascontiguousarray(sc.DIRS[5])),
                       "ref_support_value": ref.h(sc.DIRS[5])} if (o == 3 and f == 0) else None}
