"""C04 - AABBs enclose the shape and are tight on every axis.

Oracle: lo_i = -h_K(-e_i), hi_i = h_K(e_i) (closed-form support values), which
gives enclosure and tightness at once.  Also the hydroelastic RigidBody.aabb()
for the six factories at identity and non-identity poses (must bound the
world-frame vertices)."""
import itertools

import numpy as np

from .. import scenes as sc

PROPERTY = "C04"
TECHNIQUE = ("bounded-exhaustive enumeration of the collider descriptor lattice (all 32 orientations incl. the 24 cube "
             "rotations) on the real aabb() code vs closed-form support values of the reference model")
RULE = ("state = (type,size,orientation,offset,margin) or (rigid-body factory, pose); one aabb() evaluation per state "
        "gives 6 bound comparisons; non-trivial = orientation is not the identity; distinct = distinct state")
ASSUMPTIONS = ["reference extents are -h(-e_i), h(e_i) from mc/refmodel/shapes.py",
               "tolerance 1e-9*L, L=max(1, size, centre distance)"]
CHUNK = 40

RB_FACTORIES = ["sphere", "ellipsoid", "cube", "box", "cylinder", "capsule"]
RB_POSES = [(0, 0), (0, 3), (5, 0), (24, 3), (25, 2), (26, 1), (27, 3), (13, 3)]


def warmup():
    for t in sc.TYPES:
        c, _ = sc.build(t, 0, 0, np.zeros(3))
        c.aabb()
    import distance3d.hydroelastic_contact  # noqa


def enumerate_states(tier, seed):
    states = []
    n_ori, n_off = len(sc.ROTS), len(sc.OFFSETS)
    for t in sc.TYPES:
        ns = sc.n_sizes(t)
        for s, o, f, m in itertools.product(range(ns), range(n_ori), range(n_off), (0, 1)):
            if tier == "quick" and m == 1 and f not in (0, seed % n_off):
                continue
            states.append({"t": t, "s": s, "o": o, "f": f, "m": m})
        if tier == "thorough":
            # dense family: 672 further orientations (cube rotations composed with tiny .. nearly-quarter turns)
            for s, o, f, m in itertools.product(range(ns), range(n_ori, len(sc.ALL_ROTS)), (0, 2), (0, 1)):
                states.append({"t": t, "s": s, "o": o, "f": f, "m": m})
    for fac in RB_FACTORIES:
        for pi, p in enumerate(RB_POSES):
            for variant in range(2 if tier == "quick" else 3):
                states.append({"rb": fac, "pose": pi, "variant": variant})
    meta = {"bound_completed": ("full product type x size x 32 orientations x 4 offsets (margin: %s) + 6 rigid-body "
                                "factories x 8 poses x %d parameter variants" %
                                ("all; + dense family type x size x 672 orientations x 2 offsets x margin" if tier == "thorough" else "offset 0 and seed slice", 2 if tier == "quick" else 3)),
            "exhaustive": True}
    return states, meta


def _viol(kind, entry, cls, detail):
    return {"kind": kind, "entry": entry, "sig": "%s:%s:%s" % (entry, kind, cls), "detail": detail}


def _ori_class(o):
    return "cube" if o < sc.N_CUBE else "generic" if o < sc.N_GENERIC_END else "near_aligned" if o < len(sc.ROTS) else "dense"


def _pinned_ellipsoid_extent(T, radii, margin):
    """What distance3d's ellipsoid_aabb is known to return (known finding KF-C04-ellipsoid): the
    max over the three principal semi-axis end points instead of the true extent."""
    R = T[:3, :3]
    ext = R * radii[np.newaxis]
    ext = ext / np.linalg.norm(ext, axis=0)
    ext = ext * radii[np.newaxis]
    e = np.max(np.dot(R, ext.T), axis=0)
    return np.array([T[:3, 3] - e - margin, T[:3, 3] + e + margin]).T


def _make_rb(fac, T, variant):
    from distance3d.hydroelastic_contact import RigidBody
    k = [1.0, 0.05, 20.0][variant]
    if fac == "sphere":
        return RigidBody.make_sphere(T[:3, 3].copy(), 0.5 * k, 1)
    if fac == "ellipsoid":
        return RigidBody.make_ellipsoid(T.copy(), np.array([0.5, 0.3, 0.2]) * k, 1)
    if fac == "cube":
        return RigidBody.make_cube(T.copy(), 1.0 * k)
    if fac == "box":
        return RigidBody.make_box(T.copy(), np.array([1.0, 0.5, 0.25]) * k)
    if fac == "cylinder":
        return RigidBody.make_cylinder(T.copy(), 0.3 * k, 1.0 * k, resolution_hint=0.3 * k)
    if fac == "capsule":
        return RigidBody.make_capsule(T.copy(), 0.3 * k, 1.0 * k, resolution_hint=0.3 * k)
    raise ValueError(fac)


def run_state(desc):
    viol, nontrivial, hist = [], [], {}
    if "rb" in desc:
        o, f = RB_POSES[desc["pose"]]
        T = sc.pose(o, sc.OFFSETS[f])
        rb = _make_rb(desc["rb"], T, desc["variant"])
        cls = "rigidbody_%s:%s" % (desc["rb"], "identity_rot" if o == 0 else _ori_class(o))
        try:
            bb = np.asarray(rb.aabb(), dtype=float)
        except Exception as e:  # noqa
            return {"viol": [_viol("exception", "RigidBody.aabb", cls, {"exc": repr(e)})], "n_eval": 1}
        W = rb.vertices_ @ rb.body2origin_[:3, :3].T + rb.body2origin_[:3, 3]
        lo, hi = W.min(axis=0), W.max(axis=0)
        L = max(1.0, float(np.max(hi - lo)), float(np.linalg.norm(T[:3, 3])))
        tol = 1e-9 * L
        if bb.shape != (3, 2) or not np.all(np.isfinite(bb)):
            viol.append(_viol("shape_or_nonfinite", "RigidBody.aabb", cls, {"aabb": bb}))
        else:
            if np.any(bb[:, 0] > lo + tol) or np.any(bb[:, 1] < hi - tol):
                viol.append(_viol("not_enclosing", "RigidBody.aabb", cls,
                                  {"aabb": bb, "world_vertex_min": lo, "world_vertex_max": hi, "pose": T}))
            elif np.any(bb[:, 0] < lo - tol) or np.any(bb[:, 1] > hi + tol):
                viol.append(_viol("not_tight", "RigidBody.aabb", cls,
                                  {"aabb": bb, "world_vertex_min": lo, "world_vertex_max": hi, "pose": T}))
        # history: the box must follow later pose changes (attribute assignment as the examples do it,
        # update_pose, express_in) and repeated calls must not change it
        class _Artist:
            def set_data(self, *a, **k):
                pass
        rb._artist = _Artist()
        o2, f2 = RB_POSES[(desc["pose"] + 3) % len(RB_POSES)]
        T2 = sc.pose(o2, sc.OFFSETS[f2])
        T3 = sc.pose(o, sc.OFFSETS[(f + 1) % len(sc.OFFSETS)])
        steps = [("repeat", lambda: None), ("set_body2origin", lambda: setattr(rb, "body2origin_", T2.copy())),
                 ("update_pose", lambda: rb.update_pose(T3.copy())), ("express_in", lambda: rb.express_in(T2.copy())),
                 ("repeat2", lambda: None)]
        for name, act in steps:
            try:
                act()
                bb2 = np.asarray(rb.aabb(), dtype=float)
            except Exception as e:  # noqa
                viol.append(_viol("exception", "RigidBody.aabb", cls + ":after_" + name, {"exc": repr(e)[:200]}))
                break
            W = rb.vertices_ @ rb.body2origin_[:3, :3].T + rb.body2origin_[:3, 3]
            lo2, hi2 = W.min(axis=0), W.max(axis=0)
            L2 = max(1.0, float(np.max(hi2 - lo2)), float(np.linalg.norm(rb.body2origin_[:3, 3])))
            if bb2.shape != (3, 2) or not np.all(np.abs(bb2[:, 0] - lo2) <= 1e-9 * L2) or not np.all(np.abs(bb2[:, 1] - hi2) <= 1e-9 * L2):
                viol.append(_viol("stale_or_wrong_after_history", "RigidBody.aabb", cls + ":after_" + name,
                                  {"aabb": bb2, "world_vertex_min": lo2, "world_vertex_max": hi2}))
                break
        if o != 0:
            nontrivial.append(["rb", desc["rb"], desc["pose"], desc["variant"]])
        hist["rigid_body"] = {desc["rb"]: 1}
        return {"viol": viol, "n_eval": 1, "n_trans": 6, "nontrivial": nontrivial, "hist": hist,
                "sample": {"desc": desc, "aabb": bb, "expected_min": lo, "expected_max": hi} if desc["pose"] == 3 else None}

    t, s, o, f, m = desc["t"], desc["s"], desc["o"], desc["f"], desc["m"]
    centre = sc.OFFSETS[f]
    mv = sc.margin_value(t, s, m)
    col, ref = sc.build(t, s, o, centre, mv)
    L = max(1.0, ref.size(), float(np.linalg.norm(centre)))
    tol = 1e-9 * L
    cls = "%s%s:%s" % (t, "+margin" if m else "", _ori_class(o))
    n_eval = 1
    try:
        bb = np.asarray(col.aabb(), dtype=float)
    except Exception as e:  # noqa
        return {"viol": [_viol("exception", "aabb", cls, {"exc": repr(e)})], "n_eval": 1}
    # repeated queries (and queries of the wrapped collider) must not change the answer
    try:
        bb_b = np.asarray(col.aabb(), dtype=float)
        col.support_function(np.array([0.3, -0.2, 0.9]))
        inner = getattr(col, "collider", None)
        bb_inner = np.asarray(inner.aabb(), dtype=float) if inner is not None else None
        bb_c = np.asarray(col.aabb(), dtype=float)
        n_eval += 2
        if not (np.array_equal(bb, bb_b) and np.array_equal(bb, bb_c)):
            viol.append(_viol("changes_on_repeated_call", "aabb", cls, {"first": bb, "second": bb_b, "third": bb_c}))
        if bb_inner is not None and not np.allclose(bb_inner[:, 0] - mv, bb[:, 0], rtol=0, atol=1e-9 * L) :
            viol.append(_viol("inner_collider_aabb_changed", "aabb", cls, {"outer": bb, "inner": bb_inner, "margin": mv}))
    except Exception as e:  # noqa
        viol.append(_viol("exception", "aabb", cls + ":repeat", {"exc": repr(e)[:200]}))
    E = np.eye(3)
    lo = np.array([-ref.h(-E[i]) for i in range(3)])
    hi = np.array([ref.h(E[i]) for i in range(3)])
    if bb.shape != (3, 2) or not np.all(np.isfinite(bb)):
        viol.append(_viol("shape_or_nonfinite", "aabb", cls, {"aabb": bb}))
    else:
        small = (bb[:, 0] > lo + tol) | (bb[:, 1] < hi - tol)
        loose = (bb[:, 0] < lo - tol) | (bb[:, 1] > hi + tol)
        if np.any(small):
            if t == "ellipsoid" and np.allclose(bb, _pinned_ellipsoid_extent(sc.pose(o, centre), np.array(sc.SIZES[t][s], dtype=float), mv),
                                                rtol=1e-12, atol=1e-12 * L):
                cls_a = cls + ":semi_axis_endpoint_formula"
            else:
                cls_a = cls
            viol.append(_viol("not_enclosing", "aabb", cls_a, {"aabb": bb, "expected_min": lo, "expected_max": hi,
                                                             "worst": float(max(np.max(bb[:, 0] - lo), np.max(hi - bb[:, 1])))}))
        elif np.any(loose):
            viol.append(_viol("not_tight", "aabb", cls, {"aabb": bb, "expected_min": lo, "expected_max": hi,
                                                         "worst": float(max(np.max(lo - bb[:, 0]), np.max(bb[:, 1] - hi)))}))
    # free functions of distance3d.containment must agree with the collider method
    if m == 0:
        from distance3d import containment as ct
        T = sc.pose(o, centre)
        sz = sc.SIZES[t][s]
        try:
            if t == "sphere":
                r = ct.sphere_aabb(centre.copy(), float(sz))
            elif t == "ellipsoid":
                r = ct.ellipsoid_aabb(T, np.array(sz, dtype=float))
            elif t == "capsule":
                r = ct.capsule_aabb(T, sz[0], sz[1])
            elif t == "cylinder":
                r = ct.cylinder_aabb(T, sz[0], sz[1])
            elif t == "cone":
                r = ct.cone_aabb(T, sz[0], sz[1])
            elif t == "box":
                r = ct.box_aabb(T, np.array(sz, dtype=float))
            elif t == "disk":
                r = ct.disk_aabb(centre.copy(), float(sz), np.ascontiguousarray(T[:3, 2]))
            elif t == "ellipse":
                r = ct.ellipse_aabb(centre.copy(), np.ascontiguousarray(T[:3, :2].T), np.array(sz, dtype=float))
            else:
                v, _ = sc.mesh_data(sz[0])
                r = ct.axis_aligned_bounding_box((v * sz[1]) @ T[:3, :3].T + centre)
            n_eval += 1
            r = np.array(r, dtype=float).T
            if r.shape != (3, 2) or not np.all(np.isfinite(r)) or np.any(r[:, 0] > lo + tol) or np.any(r[:, 1] < hi - tol) \
                    or np.any(r[:, 0] < lo - tol) or np.any(r[:, 1] > hi + tol):
                if t == "ellipsoid" and np.allclose(r, _pinned_ellipsoid_extent(T, np.array(sz, dtype=float), 0.0), rtol=1e-12, atol=1e-12 * L):
                    cls_c = cls + ":semi_axis_endpoint_formula"
                else:
                    cls_c = cls
                kind = "not_enclosing" if (not np.all(np.isfinite(r)) or np.any(r[:, 0] > lo + tol) or np.any(r[:, 1] < hi - tol)) else "not_tight"
                viol.append(_viol(kind, "containment_fn", cls_c, {"aabb": r, "expected_min": lo, "expected_max": hi}))
        except Exception as e:  # noqa
            viol.append(_viol("exception", "containment_fn", cls, {"exc": repr(e)}))
    if o != 0:
        nontrivial.append([t, s, o, f, m])
    hist["type"] = {t: 1}
    return {"viol": viol, "n_eval": n_eval, "n_trans": 6 * n_eval, "nontrivial": nontrivial, "hist": hist,
            "sample": {"desc": desc, "aabb": bb, "expected_min": lo, "expected_max": hi} if (o == 25 and f == 0 and m == 0) else None}
