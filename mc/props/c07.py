"""C07 - EPA returns the minimum translation vector whenever it reports success.

Overlapping scenes (anchors coincident / offset, deep, identical, supporting
planes interpenetrating by a prescribed amount along lattice and generic
directions).  The simplex handed to EPA is the one gjk.gjk returns and its row
permutations (every winding; all 24 for scenes with <= 1 deviation, one even
and one odd permutation otherwise).
Oracle: polytope pairs -> exact penetration depth g* and exact residual overlap
r(mtv) over the SAT axes (face normals of A and B, edge x edge), both within
1e-6*L, and success=True is required.  Smooth pairs -> one-sided sound checks:
|mtv| <= g(n) + tol for every lattice/refined direction n (mtv not longer than
necessary), and min_n (g(n) - mtv.n) >= -tol (no remaining gap).
"""
import itertools

import numpy as np

from .. import gjkscenes as gs
from .. import instr
from .. import scenes as sc
from ..refmodel import depth as dp

PROPERTY = "C07"
TECHNIQUE = ("bounded-exhaustive enumeration of overlapping scene descriptors x simplex row permutations (windings) on the "
             "real gjk.gjk + epa, judged by exhaustive SAT-axis enumeration (exact depth/residual for polytopes) and "
             "one-sided direction-lattice bounds for smooth shapes")
RULE = ("state = overlapping scene descriptor x permutation of the GJK simplex rows; one epa run per state-permutation; "
        "non-trivial = gjk reported overlap and epa reported success; distinct = distinct (descriptor, permutation); "
        "smooth pairs where epa fails or hits its capacity assertion are counted as 'vacuous'")
ASSUMPTIONS = ["SAT axes from scipy ConvexHull facets/edges of the world-frame vertices",
               "tolerance 1e-6*L", "for smooth pairs only sound one-sided verdicts are drawn (mtv too long / leaves a gap)"]
CHUNK = 30
STATE_TIMEOUT = 300.0
POLY = ("box", "hull", "mesh")

ALPH = {
    "pl": [7, 8, 9, 10, 11, 12, 16, 17, 18, 19, 20],
    "u": [0, 1, 3, 5, 7, 14, 20, 27, 28],
    "oa": [0, 5, 9, 24, 26, 28, 31],
    "ob": [0, 7, 13, 25, 27, 29, 30],
    "sa": [0, 1, 2, 3],
    "sb": [0, 1, 2, 3],
    "fa": [0, 2, 3],
    "ma": [0, 1],
    "mb": [0, 1],
}
PERMS = list(itertools.permutations(range(4)))


def warmup():
    from distance3d import gjk, epa
    A, _ = sc.build("box", 0, 0, np.zeros(3))
    B, _ = sc.build("mesh", 0, 0, np.array([0.2, 0.1, 0.0]))
    r = gjk.gjk(A, B)
    epa.epa(r[3], A, B)


def enumerate_states(tier, seed):
    states = []
    for ta, tb in itertools.product(sc.TYPES, sc.TYPES):
        poly = ta in POLY and tb in POLY
        bound = (3 if poly else 2) if tier == "thorough" else (2 if poly else 1)
        for d in gs.enumerate_custom(ta, tb, ALPH, bound):
            ndev = sum(1 for k in ALPH if d[k] != ALPH[k][0])
            d["perms"] = "all" if (ndev <= 1 and poly) or (tier == "thorough" and poly and ndev <= 2) else "two"
            states.append(d)
    meta = {"bound_completed": "polytope pairs (box/hull/mesh, 9 ordered pairs): deviation bound %d over 9 coordinates; other pairs: "
                               "deviation bound %d; simplex permutations: all 24 for <=%d deviations (polytopes), 2 otherwise"
                               % ((3, 2, 2) if tier == "thorough" else (2, 1, 1)),
            "exhaustive": True}
    return states, meta


def _viol(kind, cls, detail):
    return {"kind": kind, "entry": "epa", "sig": "epa:%s:%s" % (kind, cls), "detail": detail}


def _poly_key(t, d, which):
    return (t, d["s" + which], d["o" + which]) if not d["m" + which] else None


_AXES6 = [np.array(v, dtype=float) for v in ((1, 0, 0), (-1, 0, 0), (0, 1, 0), (0, -1, 0), (0, 0, 1), (0, 0, -1))]


def _probe(A, B):
    # support VALUES, not points: a mesh may return another vertex of a tied face depending on its cached start vertex
    return [float(np.dot(d, np.asarray(c.support_function(d), dtype=float))) for c in (A, B) for d in _AXES6]


def _probe_viol(probe0, A, B, cls, L):
    try:
        now = _probe(A, B)
    except Exception as e:  # noqa
        return [_viol("exception_in_support_after_query:" + type(e).__name__, cls, {"exc": repr(e)[:200]})]
    dev = max(abs(a - b) for a, b in zip(probe0, now))
    if not dev <= 1e-12 * L:
        return [_viol("collider_changed_by_query", cls, {"max_change_of_an_axis_support_value": dev})]
    return []


def run_state(desc):
    from distance3d import gjk, epa
    s = gs.build(desc)
    A, B, rA, rB = s["A"], s["B"], s["rA"], s["rB"]
    L = s["truth"]["L"]
    tol = 1e-6 * L
    cls = gs.pair_class(desc)
    kind = gs.PLACEMENTS[desc["pl"]][0]
    tb = desc["ta"] if kind in ("identical", "same") else desc["tb"]
    mb = desc["ma"] if kind in ("identical", "same") else desc["mb"]
    poly = desc["ta"] in POLY and tb in POLY and not desc["ma"] and not mb
    viol, hist = [], {}
    # read-only invariant (round 3, seed C07-r3-m2): gjk / epa are queries; the support values of both colliders along the six
    # axis directions must be the same after the whole state as before it (an in-place write into a vertex view grows the shape)
    probe0 = _probe(A, B)
    ctr0 = instr.instrument([A, B], budget=4000, log=True)
    try:
        res = gjk.gjk(A, B)
    except Exception as e:  # noqa
        return {"viol": _probe_viol(probe0, A, B, cls, L), "n_eval": 1, "hist": {"gjk": {"exception": 1}}}
    finally:
        instr.uninstrument([A, B])
    pv = _probe_viol(probe0, A, B, cls, L)
    if pv:
        return {"viol": pv, "n_eval": 1, "n_trans": 1, "traces": 1, "hist": {"gjk": {"collider_changed_by_query": 1}}}
    if res[1] is None or not res[0] == 0.0:
        return {"viol": [], "n_eval": 1, "n_trans": 1, "traces": 0, "hist": {"gjk": {"separated_or_touching(not judged)": 1}}}
    simplex = np.array(res[3], dtype=float)
    # gjk returns its 4x3 work array; only the rows of the final simplex are meaningful, the others are
    # uninitialised memory.  A well-formed hand-over to epa is a tetrahedron of Minkowski-difference support
    # points that contains the origin: every row must be one of the (p - q) pairs gjk actually evaluated.
    log = ctr0.log
    if A is B:
        cand = [log[i][2] - log[i + 1][2] for i in range(0, len(log) - 1, 2)]
    else:
        cand = [log[i][2] - log[i + 1][2] for i in range(0, len(log) - 1, 2) if log[i][0] == 0 and log[i + 1][0] == 1]
    cand = np.array(cand) if cand else np.zeros((0, 3))
    genuine = np.all(np.isfinite(simplex)) and all(np.any(np.all(np.abs(cand - row) <= 1e-12 * max(1.0, np.max(np.abs(row))), axis=1))
                                                   for row in simplex)
    if not genuine:
        return {"viol": [], "n_eval": 1, "n_trans": 1, "traces": 0, "hist": {"gjk": {"simplex_has_fewer_than_4_points(not judged)": 1}}}
    M = np.vstack([simplex.T, np.ones(4)])
    scale = max(1e-300, float(np.max(np.abs(simplex))))
    if abs(np.linalg.det(M)) < 1e-9 * scale ** 3:
        return {"viol": [], "n_eval": 1, "n_trans": 1, "traces": 0, "hist": {"gjk": {"degenerate_simplex(not judged)": 1}}}
    lam = np.linalg.solve(M, np.array([0.0, 0.0, 0.0, 1.0]))
    if np.min(lam) < 1e-9:
        return {"viol": [], "n_eval": 1, "n_trans": 1, "traces": 0, "hist": {"gjk": {"origin_on_simplex_boundary(not judged)": 1}}}
    if poly:
        VA, VB = dp.polytope_vertices(rA), dp.polytope_vertices(rB)
        axes = dp.sat_axes(VA - VA.mean(axis=0), VB - VB.mean(axis=0),
                           (desc["ta"], desc["sa"], desc["oa"]), (tb, desc["sa"] if kind in ("identical", "same") else desc["sb"],
                                                                 desc["oa"] if kind in ("identical", "same") else desc["ob"]))
        gstar, nstar = dp.polytope_depth(VA, VB, axes)
    else:
        gub, nub = dp.upper_bound_min(rA, rB)
    perms = PERMS if desc["perms"] == "all" else [PERMS[0], PERMS[1], PERMS[9]]
    n_eval, nontriv = 1, 0
    seen_sig = set()
    for perm in perms:
        sx = np.ascontiguousarray(simplex[list(perm)])
        n_eval += 1
        ctr = instr.instrument([A, B], budget=1000)
        try:
            mtv, faces, success = epa.epa(sx, A, B)
        except AssertionError:
            hist.setdefault("epa", {})["capacity_assertion"] = hist.get("epa", {}).get("capacity_assertion", 0) + 1
            if poly:
                big = any(sc.SIZES[t][si][0] == "icosphere" for t, si in ((desc["ta"], desc["sa"]), (tb, desc["sa"] if kind in ("identical", "same") else desc["sb"]))
                          if t in ("mesh", "hull"))
                tag = ":icosphere42" if big else ":small_polytopes"
                if big:
                    # the recorded finding is the documented capacity parameter itself: recognised when the same call with a
                    # larger capacity succeeds with the exact depth (otherwise it is some other way of failing)
                    try:
                        m2, _, ok2 = epa.epa(np.ascontiguousarray(sx), A, B, max_iter=2000, max_loose_edges=1024, max_faces=2048)
                        if ok2 and abs(float(np.linalg.norm(m2)) - gstar) <= 2e-6 * s["truth"]["L"]:
                            tag += ":succeeds_with_larger_capacity"
                    except Exception:  # noqa
                        pass
                v = _viol("capacity_assertion_on_polytopes", cls + tag, {"perm": perm})
                if v["sig"] not in seen_sig:
                    seen_sig.add(v["sig"])
                    viol.append(v)
            continue
        except instr.BudgetExceeded:
            viol.append(_viol("no_termination_1000_support_calls", cls, {"perm": perm}))
            continue
        except Exception as e:  # noqa
            v = _viol("exception:" + type(e).__name__, cls, {"perm": perm, "exc": repr(e)[:200]})
            if v["sig"] not in seen_sig:
                seen_sig.add(v["sig"])
                viol.append(v)
            continue
        finally:
            instr.uninstrument([A, B])
        hist.setdefault("epa", {})["success" if success else "no_success"] = hist.get("epa", {}).get("success" if success else "no_success", 0) + 1
        par = "even" if np.linalg.det(np.eye(4)[list(perm)]) > 0 else "odd"
        if not success:
            if poly:
                v = _viol("no_success_on_polytopes", cls + ":" + par, {"perm": perm, "mtv": mtv})
                if v["sig"] not in seen_sig:
                    seen_sig.add(v["sig"])
                    viol.append(v)
            continue
        nontriv += 1
        mtv = np.asarray(mtv, dtype=float)
        if not np.all(np.isfinite(mtv)):
            viol.append(_viol("nonfinite", cls, {"perm": perm, "mtv": mtv}))
            continue
        ln = float(np.linalg.norm(mtv))
        v = None
        if poly:
            r, nr = dp.polytope_residual(VA, VB, axes, mtv)
            if abs(ln - gstar) > tol:
                v = _viol("length_not_depth", cls + ":" + par, {"perm": perm, "mtv": mtv, "|mtv|": ln, "depth": gstar, "depth_axis": nstar, "tol": tol})
            elif abs(r) > tol:
                v = _viol("not_touching_after_translation", cls + ":" + par, {"perm": perm, "mtv": mtv, "residual": r, "axis": nr, "tol": tol})
        else:
            if ln > gub + tol:
                v = _viol("longer_than_necessary", cls + ":" + par, {"perm": perm, "|mtv|": ln, "witness_extent": gub, "witness_direction": nub, "tol": tol})
            else:
                r, nr = dp.upper_bound_min(rA, rB, mtv, extra=[mtv], refine=True)
                if r < -tol:
                    v = _viol("gap_after_translation", cls + ":" + par, {"perm": perm, "mtv": mtv, "residual_upper_bound": r, "tol": tol})
        if v is not None and v["sig"] not in seen_sig:
            seen_sig.add(v["sig"])
            viol.append(v)
    hist["pair_kind"] = {"polytope" if poly else "smooth_or_margin": 1}
    viol += _probe_viol(probe0, A, B, cls, L)
    sample = None
    if poly and desc["pl"] == 16 and desc["u"] == 3 and desc["ta"] == "box" and tb == "box" and desc["oa"] == 0 and desc["ob"] == 0:
        sample = {"desc": desc, "depth": gstar, "depth_axis": nstar, "simplex": simplex}
    return {"viol": viol, "n_eval": n_eval, "n_trans": n_eval, "traces": n_eval - 1, "nontrivial_n": nontriv, "hist": hist, "sample": sample}
