"""C15 - hydroelastic contact polygons lie on the contact plane inside both tetrahedra.

(a) single tetrahedron pairs: 3 reference tetrahedra (right corner, regular, sliver) against copies moved by all 24
    cube rotations x a translation lattice (shared faces, parallel faces, containment, touching) x Young's moduli;
    intersect_tetrahedron_pair is called in both argument orders;
(b) body pairs from the six factories (coarse meshes) stacked / offset / rotated / separated, every reported
    tetrahedron pair of find_contact_surface being checked.
Oracle: every polygon vertex on the reported plane and inside both tetrahedra (barycentric coordinates by an independent
linear solve >= -1e-9), convex with non-negative area equal to the reported area, force along the normal with
non-negative pressure, same polygon for swapped order; separated bodies -> intersection False, zero wrenches.
"""
import itertools

import numpy as np

from .. import hydro
from .. import scenes as sc

PROPERTY = "C15"
TECHNIQUE = ("bounded-exhaustive enumeration of tetrahedron-pair lattice placements and body-pair placements on the real "
             "intersect_tetrahedron_pair / find_contact_surface vs independent barycentric solves and plane/convexity checks")
RULE = ("state = (reference tetrahedron, rotation, moduli) with all lattice translations as transitions, or a body-pair scene whose "
        "reported tetrahedron pairs are the transitions; non-trivial = pair for which an intersection polygon was reported; for the "
        "aligned family additionally faces parallel to the contact plane; distinct = distinct (state, pair)")
ASSUMPTIONS = ["barycentric coordinates from numpy.linalg.solve on the 4x4 system", "tolerances: barycentric -1e-9, plane 1e-9*size"]
CHUNK = 4
STATE_TIMEOUT = 600.0

TETS = {
    "corner": np.array([[0, 0, 0], [1, 0, 0], [0, 1, 0], [0, 0, 1]], dtype=float),
    "regular": np.array([[1, 1, 1], [1, -1, -1], [-1, 1, -1], [-1, -1, 1]], dtype=float) * 0.5,
    "sliver": np.array([[0, 0, 0], [1, 0, 0], [0, 1, 0], [0.3, 0.3, 0.15]], dtype=float),
}
POTS = {"corner": np.array([1.0, 0.0, 0.0, 0.0]), "regular": np.array([0.0, 0.0, 0.0, 0.7]), "sliver": np.array([0.0, 0.0, 0.0, 0.5])}
TRANS = [np.array(v, dtype=float) * 0.25 for v in itertools.product((-2, -1, 0, 1, 2), repeat=3)]
# nearly coinciding faces: lattice translations with |components| <= 0.25 shifted by 2e-7 along x / along the diagonal
TRANS_TINY = [t + e for t in TRANS if np.max(np.abs(t)) <= 0.25 for e in (np.array([2e-7, 0.0, 0.0]), np.array([1e-7, 1e-7, -1e-7]))]
FAR = np.array([600.0, -300.0, 200.0])
TRANS_FINE = [np.array(v, dtype=float) * 0.125 for v in itertools.product(range(-4, 5), repeat=3)]
MODULI = [(1.0, 1.0), (0.01, 100.0), (100.0, 1.0)]
BODY_PLACEMENTS = ["stack_z_small", "stack_z_deep", "offset_xy", "side_x", "separated", "touching"]
BODY_ORIS = [0, 5, 24, 26]


def warmup():
    from distance3d import hydroelastic_contact as hc
    a = hydro.make_body("cube", np.eye(4))
    T = np.eye(4)
    T[2, 3] = 0.9
    b = hydro.make_body("sphere", T)
    hc.contact_forces(a, b)


def enumerate_states(tier, seed):
    states = []
    for name in TETS:
        for r in range(sc.N_CUBE):
            for mi in range(len(MODULI)):
                states.append({"kind": "tets", "tet": name, "rot": r, "mod": mi})
        for r in range(sc.N_CUBE, sc.N_CUBE + 2):
            states.append({"kind": "tets", "tet": name, "rot": r, "mod": 0})
        for r in (0, 3, 9, 17, 22, sc.N_CUBE):
            states.append({"kind": "tets", "tet": name, "rot": r, "mod": 0, "far": 1})      # both tetrahedra 700 units from the origin
            states.append({"kind": "tets", "tet": name, "rot": r, "mod": 0, "tiny": 1})     # faces 1e-7 apart
        if tier == "thorough":
            for r in range(sc.N_CUBE + 2, len(sc.ALL_ROTS)):
                states.append({"kind": "tets", "tet": name, "rot": r, "mod": 0})
            for r in range(sc.N_CUBE):
                states.append({"kind": "tets", "tet": name, "rot": r, "mod": 0, "fine": 1})
    for fa, fb in itertools.product(hydro.FACTORIES, hydro.FACTORIES):
        for pl in range(len(BODY_PLACEMENTS)):
            for o in (range(len(sc.ROTS)) if tier == "thorough" else BODY_ORIS[:3]):
                states.append({"kind": "bodies", "a": fa, "b": fb, "pl": pl, "ob": o, "g": 0})
        states.append({"kind": "bodies", "a": fa, "b": fb, "pl": 0, "ob": 0, "g": 1})
        states.append({"kind": "bodies", "a": fa, "b": fb, "pl": 2, "ob": 5, "g": 2})
    return states, {"bound_completed": "3 reference tetrahedra x 26 rotations x 125 lattice translations x moduli, both argument orders (+ 6 rotations 700 units from the origin, + 54 translations with faces 1e-7 apart); "
                                       "36 body pairs x 6 placements x %d orientations + 2 moved frames%s" % (32 if tier == "thorough" else 3,
                                           "; thorough: + 678 further rotations and a 9x9x9 translation lattice (step 0.125) for the 24 cube rotations"
                                           if tier == "thorough" else ""),
                    "exhaustive": True}


def _viol(entry, kind, cls, detail):
    return {"kind": kind, "entry": entry, "sig": "%s:%s:%s" % (entry, kind, cls), "detail": detail}


def bary(tet, x):
    """Barycentric coordinates, solved relative to the first vertex (well conditioned far from the origin)."""
    tet = np.asarray(tet, dtype=float)
    lam = np.linalg.solve((tet[1:] - tet[0]).T, np.asarray(x, dtype=float) - tet[0])
    return np.concatenate([[1.0 - lam.sum()], lam])


def check_polygon(plane, poly, t1, t2, size, cls, entry, ctx, add):
    """Returns polygon area (or None)."""
    n, d = np.asarray(plane[:3], dtype=float), float(plane[3])
    poly = np.asarray(poly, dtype=float)
    if poly.ndim != 2 or poly.shape[1] != 3 or len(poly) < 3 or not np.all(np.isfinite(poly)) or not np.all(np.isfinite(plane)):
        add(_viol(entry, "polygon_shape_or_nonfinite", cls, dict(ctx, polygon=poly)))
        return None
    if abs(np.linalg.norm(n) - 1.0) > 1e-9:
        add(_viol(entry, "plane_normal_not_unit", cls, dict(ctx, normal=n)))
    off = np.abs(poly @ n - d)
    if np.max(off) > 1e-9 * size:
        add(_viol(entry, "vertex_off_plane", cls, dict(ctx, max_offset=float(np.max(off)))))
    worst = 0.0
    for x in poly:
        for t in (t1, t2):
            worst = min(worst, float(np.min(bary(t, x))))
    if worst < -1e-9:
        add(_viol(entry, "vertex_outside_tetrahedron", cls, dict(ctx, min_barycentric=worst, polygon=poly, plane=plane)))
    # convexity / orientation: consecutive edge cross products must not change sign along the normal
    m = len(poly)
    if np.allclose(poly, poly[0]):
        return 0.0
    crosses = [float(np.cross(poly[(i + 1) % m] - poly[i], poly[(i + 2) % m] - poly[(i + 1) % m]) @ n) for i in range(m)]
    emax = max(float(np.linalg.norm(poly[(i + 1) % m] - poly[i])) for i in range(m))
    # a vertex may be misplaced by the property's own 1e-9*size; that changes a cross product of two edges by up to ~2*emax*1e-9*size
    # (for sliver polygons of negligible extent a threshold relative to emax^2 alone would judge rounding noise)
    tol_c = 1e-9 * emax * emax + 4e-9 * emax * size
    if min(crosses) < -tol_c and max(crosses) > tol_c:
        add(_viol(entry, "polygon_not_convex", cls, dict(ctx, crosses=crosses, polygon=poly)))
    area = 0.5 * abs(sum(float(np.cross(poly[i] - poly[0], poly[i + 1] - poly[0]) @ n) for i in range(1, m - 1)))
    return area


def _dist_to_convex_polygon(x, poly, n):
    """Distance of a point (in the polygon plane) to a convex polygon with ordered vertices."""
    m = len(poly)
    c = poly.mean(axis=0)
    best = np.inf
    inside = True
    sgn = 0.0
    for i in range(m):
        a, b = poly[i], poly[(i + 1) % m]
        e = b - a
        le = float(e @ e)
        if le == 0.0:
            best = min(best, float(np.linalg.norm(x - a)))
            continue
        t = min(1.0, max(0.0, float((x - a) @ e) / le))
        best = min(best, float(np.linalg.norm(x - (a + t * e))))
        side = float(np.cross(e, x - a) @ n)
        ref = float(np.cross(e, c - a) @ n)
        if side * ref < 0:
            inside = False
    return 0.0 if inside else best


def same_polygon(p1, p2, tol, n=None):
    """Equality as point sets: every vertex of one polygon lies in (or within tol of) the other polygon.
    (Vertex lists may differ by collinear or nearly coinciding extra vertices.)"""
    p1, p2 = np.asarray(p1, dtype=float), np.asarray(p2, dtype=float)
    if n is None:
        n = np.cross(p1[1] - p1[0], p1[2] - p1[0])
        for k in range(2, len(p1)):
            if np.linalg.norm(n) > 0:
                break
            n = np.cross(p1[1] - p1[0], p1[k] - p1[0])
    for a in p1:
        if _dist_to_convex_polygon(a, p2, n) > tol:
            return False
    for a in p2:
        if _dist_to_convex_polygon(a, p1, n) > tol:
            return False
    return True


def run_tets(desc):
    from distance3d import hydroelastic_contact as hc
    name = desc["tet"]
    off = FAR if desc.get("far") else np.zeros(3)
    t1 = np.ascontiguousarray(TETS[name] + off)
    e1 = POTS[name].copy()
    R = sc.ALL_ROTS[desc["rot"]]
    E1, E2 = MODULI[desc["mod"]]
    cls = "%s:%s" % (name, "cube_rot" if desc["rot"] < sc.N_CUBE else "generic_rot")
    viol, seen = [], set()

    def add(v):
        if v["sig"] not in seen:
            seen.add(v["sig"])
            viol.append(v)
    n_eval, nontriv = 0, 0
    X1 = np.ascontiguousarray(hc.barycentric_transforms(t1[np.newaxis])[0])
    for other in TETS:
        for ti, tr in enumerate(TRANS_FINE if desc.get("fine") else TRANS_TINY if desc.get("tiny") else TRANS):
            t2 = np.ascontiguousarray(TETS[other] @ R.T + tr + off)
            e2 = POTS[other].copy()
            X2 = np.ascontiguousarray(hc.barycentric_transforms(t2[np.newaxis])[0])
            ctx = {"tet1": name, "tet2": other, "rot": desc["rot"], "trans": tr, "moduli": [E1, E2]}
            n_eval += 2
            try:
                i12, det12 = hc.intersect_tetrahedron_pair(t1, e1, X1, t2, e2, X2, E1, E2)
                i21, det21 = hc.intersect_tetrahedron_pair(t2, e2, X2, t1, e1, X1, E2, E1)
            except Exception as e:  # noqa
                add(_viol("intersect_tetrahedron_pair", "exception:" + type(e).__name__, cls, dict(ctx, exc=repr(e)[:200])))
                continue
            if bool(i12) != bool(i21):
                # grazing contact (polygon of negligible area found in one order only) is inside the library's own 1e-6 tolerance
                det = det12 if i12 else det21
                tt = (t1, t2) if i12 else (t2, t1)
                ar = check_polygon(det[0], det[1], tt[0], tt[1], 1.0, cls, "intersect_tetrahedron_pair", ctx, add)
                if ar is None or ar > 1e-6:
                    add(_viol("intersect_tetrahedron_pair", "flag_depends_on_argument_order", cls, dict(ctx, i12=bool(i12), i21=bool(i21), area=ar)))
                continue
            if not i12:
                continue
            nontriv += 1
            a12 = check_polygon(det12[0], det12[1], t1, t2, 1.0, cls, "intersect_tetrahedron_pair", ctx, add)
            a21 = check_polygon(det21[0], det21[1], t2, t1, 1.0, cls, "intersect_tetrahedron_pair", dict(ctx, swapped=True), add)
            if a12 is not None and a21 is not None:
                if (not same_polygon(det12[1], det21[1], 1e-6, np.asarray(det12[0][:3])) or abs(a12 - a21) > 1e-6) and max(a12, a21) > 1e-6:
                    add(_viol("intersect_tetrahedron_pair", "polygon_depends_on_argument_order", cls,
                              dict(ctx, polygon12=det12[1], polygon21=det21[1])))
                p12, p21 = np.asarray(det12[0]), np.asarray(det21[0])
                if not (np.allclose(p12, -p21, atol=1e-9) or np.allclose(p12, p21, atol=1e-9)) and max(a12, a21) > 1e-6:
                    add(_viol("intersect_tetrahedron_pair", "plane_depends_on_argument_order", cls, dict(ctx, plane12=p12, plane21=p21)))
                # force of this polygon for tetrahedron 1
                if a12 > 0 and len(det12[1]) >= 3:
                    com, fvec, area, _ = hc.compute_contact_force(t1, e1, np.ascontiguousarray(det12[0]), np.ascontiguousarray(det12[1]), E1)
                    n_eval += 1
                    nn = np.asarray(det12[0][:3])
                    s = float(np.asarray(fvec) @ nn)
                    if np.linalg.norm(np.asarray(fvec) - s * nn) > 1e-9 * max(1.0, abs(s)) or s < -1e-9 * max(E1, 1.0):
                        add(_viol("compute_contact_force", "force_not_along_normal_or_negative_pressure", cls, dict(ctx, force=fvec, normal=nn)))
                    if abs(float(area) - a12) > 1e-9:
                        add(_viol("compute_contact_force", "area_differs", cls, dict(ctx, area=float(area), expected=a12)))
    return {"viol": viol, "n_eval": n_eval, "n_trans": n_eval, "traces": n_eval, "nontrivial_n": nontriv,
            "hist": {"kind": {"tets": 1}}, "sample": {"desc": desc, "reference_tetrahedron": t1} if desc["rot"] == 3 and desc["mod"] == 0 else None}


def body_poses(desc):
    fa, fb = desc["a"], desc["b"]
    pl = BODY_PLACEMENTS[desc["pl"]]
    ha, hb = hydro.half_height(fa), hydro.half_height(fb)
    if pl == "stack_z_small":
        t = [0.0, 0.0, ha + hb - 0.05]
    elif pl == "stack_z_deep":
        t = [0.0, 0.0, 0.6 * (ha + hb)]
    elif pl == "offset_xy":
        t = [0.2, -0.15, ha + hb - 0.1]
    elif pl == "side_x":
        t = [0.55, 0.0, 0.05]
    elif pl == "separated":
        t = [0.0, 0.0, ha + hb + 0.5]
    else:
        t = [0.0, 0.0, ha + hb]
    TA = np.eye(4)
    TB = hydro.rigid(desc["ob"], t)
    G = [np.eye(4), hydro.rigid(25, [0.3, -0.2, 0.4]), hydro.rigid(7, [100.0, 50.0, -20.0])][desc["g"]]
    return hydro.compose(G, TA), hydro.compose(G, TB), pl


def run_bodies(desc):
    from distance3d import hydroelastic_contact as hc
    TA, TB, pl = body_poses(desc)
    cls = "%s-%s:%s" % (desc["a"], desc["b"], pl)
    viol, seen = [], set()

    def add(v):
        if v["sig"] not in seen:
            seen.add(v["sig"])
            viol.append(v)
    a = hydro.make_body(desc["a"], TA)
    b = hydro.make_body(desc["b"], TB)
    ctx = {"desc": desc}
    try:
        cs = hc.find_contact_surface(a, b)
        inter, w12, w21 = hc.contact_forces(hydro.make_body(desc["a"], TA), hydro.make_body(desc["b"], TB))
    except Exception as e:  # noqa
        return {"viol": [_viol("find_contact_surface", "exception:" + type(e).__name__, cls, dict(ctx, exc=repr(e)[:300]))], "n_eval": 1}
    n_eval, nontriv = 2, 0
    if bool(cs.intersection) != bool(inter):
        add(_viol("contact_forces", "intersection_flag_differs_from_contact_surface", cls, ctx))
    if not np.all(np.isfinite(w12)) or not np.all(np.isfinite(w21)):
        add(_viol("contact_forces", "nonfinite_wrench", cls, dict(ctx, w12=w12, w21=w21)))
    if pl == "separated":
        if cs.intersection or inter or np.any(np.asarray(w12) != 0.0) or np.any(np.asarray(w21) != 0.0):
            add(_viol("contact_forces", "separated_bodies_report_contact", cls, dict(ctx, w12=w12, w21=w21)))
    if cs.intersection:
        P1, P2 = a.tetrahedra_points, b.tetrahedra_points   # a has been expressed in b's frame
        size = float(max(np.max(np.abs(P1)), np.max(np.abs(P2)), 1.0))
        for k, (i, j) in enumerate(zip(cs.intersecting_tetrahedra1, cs.intersecting_tetrahedra2)):
            nontriv += 1
            n_eval += 1
            area = check_polygon(cs.contact_planes[k], cs.contact_polygons[k], P1[i], P2[j], size, cls, "find_contact_surface",
                                 dict(ctx, pair=[int(i), int(j)]), add)
            if area is None:
                continue
            if abs(float(cs.contact_areas[k]) - area) > 1e-9 * size * size:
                add(_viol("find_contact_surface", "area_differs", cls, dict(ctx, pair=[int(i), int(j)], area=float(cs.contact_areas[k]), expected=area)))
            nn = np.asarray(cs.contact_planes[k][:3])
            f = np.asarray(cs.contact_forces[k])
            s = float(f @ nn)
            if np.linalg.norm(f - s * nn) > 1e-9 * max(1.0, abs(s)) or s < -1e-9:
                add(_viol("find_contact_surface", "force_not_along_normal_or_negative_pressure", cls, dict(ctx, pair=[int(i), int(j)], force=f, normal=nn)))
        if len(set(zip(cs.intersecting_tetrahedra1, cs.intersecting_tetrahedra2))) != len(cs.intersecting_tetrahedra1):
            add(_viol("find_contact_surface", "duplicate_tetrahedron_pairs", cls, ctx))
    sample = {"desc": desc, "intersection": bool(inter), "n_polygons": len(cs.intersecting_tetrahedra1), "wrench12": w12} \
        if (desc["a"] == "box" and desc["b"] == "box" and desc["pl"] == 0 and desc["ob"] == 0 and desc["g"] == 0) else None
    return {"viol": viol, "n_eval": n_eval, "n_trans": n_eval, "traces": n_eval, "nontrivial_n": nontriv,
            "hist": {"kind": {"bodies": 1}, "placement": {pl + (":contact" if inter else ":no_contact"): 1}}, "sample": sample}


def run_state(desc):
    return run_tets(desc) if desc["kind"] == "tets" else run_bodies(desc)
