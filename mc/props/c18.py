"""C18 - simplex solvers return the minimum-norm point of conv of 1..4 points.

State = a multiset of k lattice points (k = 1..4) plus a scaling; transitions =
all distinct orderings of the multiset (the solvers' case analyses depend on
the order of the rows).  Every ordering is executed on both real solvers and
compared with the exact rational optimum."""
import itertools
from fractions import Fraction as F

import numpy as np

from ..refmodel import simplex as ref

PROPERTY = "C18"
TECHNIQUE = ("explicit-state exhaustive enumeration of all k<=4 point configurations on an integer lattice "
             "(every ordering), each executed on the real solvers and compared with an exact rational oracle")
RULE = ("state = multiset of k lattice points x scaling; every distinct ordering is executed on "
        "get_closest_point_to_origin and on the backup procedure; non-trivial = the optimum is not a "
        "vertex (lies on an edge, face or is the origin) or the configuration is affinely dependent; "
        "distinct = distinct (multiset, scaling)")
ASSUMPTIONS = ["fractions.Fraction arithmetic of CPython is exact",
               "tolerance | |v|-|v*| | <= 1e-9*|v*| + 1e-12*max_i |p_i| (relative to the true norm with a floor relative to the size of the configuration; purely relative is meaningless when 0 is in the hull)"]
CHUNK = 200
STATE_TIMEOUT = 120.0

SCALES = {
    "unit": (1.0, 1.0, 1.0),
    "aniso3": (1.0, 1e-3, 1e-6),
    "aniso6": (1.0, 1e-6, 1e-12),
    "small": (1e-2, 1e-2, 1e-2),
    "large": (1e3, 1e3, 1e3),
    "plate": (100.0, 100.0, 0.01),
    "s1e-3": (1e-3, 1e-3, 1e-3),
    "s1e-4": (1e-4, 1e-4, 1e-4),
    "s1e-5": (1e-5, 1e-5, 1e-5),
    "s1e-6": (1e-6, 1e-6, 1e-6),
    "needle": (1.0, 1e-5, 1e-5),
    # support points of a size-100 shape next to a unit shape, as GJK meets them: long along x, irrational in y and z; the variants
    # big70u1 / big70u2 additionally perturb every coordinate by 0-2 ulp (exactly degenerate configurations become degenerate
    # only up to rounding, which is how collinear / coinciding support points really arrive)
    "big70": (70.0, 0.7071067811865476, 0.7071067811865476),
    "big70u1": (70.0, 0.7071067811865476, 0.7071067811865476),
    "big70u2": (70.0, 0.7071067811865476, 0.7071067811865476),
}
ULP_PATTERN = {"big70u1": 1, "big70u2": 2}


def _ulp_noise(base, pattern):
    """Deterministic perturbation of every coordinate by 0..2 ulp (sign and size depend on the point / axis index)."""
    out = []
    for i, p in enumerate(base):
        q = []
        for j, c in enumerate(p):
            n = ((i * 3 + j) * (2 * pattern + 1) + pattern) % 5 - 2      # -2..2
            x = float(c)
            for _ in range(abs(n) if x != 0.0 else 0):      # zeros stay exact (no denormals)
                x = float(np.nextafter(x, np.inf if n > 0 else -np.inf))
            q.append(x)
        out.append(tuple(q))
    return out


NEEDLE_ROTS = [np.eye(3),
               np.array([[-0.6, 0.0, 0.8], [0.64, -0.6, 0.48], [0.48, 0.8, 0.36]]),
               np.array([[2 / 3., -2 / 3., 1 / 3.], [1 / 3., 2 / 3., 2 / 3.], [-2 / 3., -1 / 3., 2 / 3.]])]
NEEDLE_OFFS = [(0.0, 0.0), (0.31, 0.17), (-0.17, -0.23)]


def needle_triangle(aspect, height, short, rot, off):
    """Needle triangle (long edges ~1, short edge = aspect) whose interior is closest to the origin, which hovers
    `height` above its plane; `short` selects which edge (ab/bc/ac) is the short one."""
    apex = np.array([-0.5, 0.0])
    p = np.array([0.5, -0.5 * aspect])
    q = np.array([0.5, 0.5 * aspect])
    x0 = NEEDLE_OFFS[off][0]
    y0 = NEEDLE_OFFS[off][1] * aspect * (x0 + 0.5)
    tri = {"bc": [apex, p, q], "ac": [p, apex, q], "ab": [p, q, apex]}[short]
    R = NEEDLE_ROTS[rot]
    return [((t[0] - x0) * R[:, 0] + (t[1] - y0) * R[:, 1] + height * R[:, 2]).tolist() for t in tri]


def needle_states():
    out = []
    for short in ("bc", "ac", "ab"):
        for aspect in (1.0, 1e-1, 1e-2, 1e-3, 1e-4, 1e-5, 1e-6, 1e-7):
            for height in (1.0, 1e-2, 1e-3, 1e-4):
                for rot in range(3):
                    for off in range(3):
                        out.append({"k": 3, "pts": (), "scale": "needle_family", "needle": [aspect, height, short, rot, off]})
    return out


def warmup():
    from distance3d.gjk._gjk_jolt import get_closest_point_to_origin
    from distance3d.gjk import _gjk_original  # noqa
    for k in range(1, 5):
        Y = np.zeros((4, 3))
        Y[:k] = np.arange(3 * k).reshape(k, 3) + 1.0
        get_closest_point_to_origin(Y, k, np.inf)


def _multisets(vals, k):
    pts = list(itertools.product(vals, repeat=3))
    return itertools.combinations_with_replacement(pts, k)


def enumerate_states(tier, seed):
    states = []
    v1 = (-1, 0, 1)
    for k in (1, 2, 3):
        for ms in _multisets(v1, k):
            states.append({"k": k, "pts": ms, "scale": "unit"})
    k4 = [{"k": 4, "pts": ms, "scale": "unit"} for ms in _multisets(v1, 4)]
    meta = {}
    states += needle_states()
    extra_scales_quick = ("small", "s1e-4", "needle", "aniso3", "big70", "big70u1", "big70u2")
    if tier == "quick":
        states += k4
        n_sl = 8
        sl = seed % n_sl
        for scn in extra_scales_quick:
            for k in (2, 3):
                for ms in _multisets(v1, k):
                    states.append({"k": k, "pts": ms, "scale": scn})
            states += [{"k": 4, "pts": st["pts"], "scale": scn} for i, st in enumerate(k4) if i % n_sl == sl]
        meta["bound_completed"] = ("complete: all multisets of k<=4 points over {-1,0,1}^3, every ordering (551880 ordered "
                                   "configurations) at unit scale; plus scalings %s: k<=3 complete, k=4 slice %d of %d"
                                   % (", ".join(extra_scales_quick), sl, n_sl))
        meta["exhaustive"] = True
    else:
        states += k4
        v2 = (-2, -1, 0, 1, 2)
        for k in (1, 2, 3):
            for ms in _multisets(v2, k):
                states.append({"k": k, "pts": ms, "scale": "unit"})
        for scn in [x for x in SCALES if x != "unit"]:
            for k in (2, 3):
                for ms in _multisets(v1, k):
                    states.append({"k": k, "pts": ms, "scale": scn})
            for st in k4:
                states.append({"k": 4, "pts": st["pts"], "scale": scn})
        meta["bound_completed"] = ("complete: all multisets of k<=4 points over {-1,0,1}^3 at unit scale and under %d scalings "
                                   "(uniform 1e-6..1e3, anisotropic 1:1e-3:1e-6, 1:1e-6:1e-12, needle, plate), k<=3 over {-2..2}^3"
                                   % (len(SCALES) - 1))
        meta["exhaustive"] = True
    return states, meta


_SCALE = ["unit"]


def _viol(kind, entry, cls, detail):
    return {"kind": kind, "entry": entry, "sig": "%s:%s:%s:%s" % (entry, kind, cls, _SCALE[0]), "detail": detail}


def _norm_kind(vec, exact_pts, ref_norm, tol, cache):
    """'norm_feasible_suboptimal' when the returned point lies in the hull of the input points but is farther from the origin
    than the optimum (what an over-eager degeneracy test produces: the solver fell back to a sub-feature); plain 'norm' otherwise
    (point outside the hull, or closer than the optimum)."""
    key = tuple(float(c) for c in vec)
    if key not in cache:
        d2 = ref.dist_sq_to_hull(exact_pts, tuple(F(c) for c in key))
        cache[key] = float(d2) ** 0.5
    if cache[key] <= tol and float(np.linalg.norm(vec)) > ref_norm + tol:
        return "norm_feasible_suboptimal"
    return "norm"


def _classify(k, sub):
    return "k%d->%d" % (k, len(sub))


def run_state(desc):
    from distance3d.gjk._gjk_jolt import get_closest_point_to_origin
    from distance3d.gjk._gjk_original import (SimplexInfo, Solution,
                                              distance_subalgorithm_with_backup_procedure)
    k = desc["k"]
    _SCALE[0] = desc["scale"]
    if "needle" in desc:
        base = [tuple(float(c) for c in p) for p in needle_triangle(*desc["needle"])]
    else:
        sc = SCALES[desc["scale"]]
        base = [tuple(float(c) * s for c, s in zip(p, sc)) for p in desc["pts"]]
        if desc["scale"] in ULP_PATTERN:
            base = _ulp_noise(base, ULP_PATTERN[desc["scale"]])
    exact_pts = [tuple(F(c) for c in p) for p in base]
    nsq, vstar, S, lam = ref.min_norm(exact_pts)
    ref_norm = float(nsq) ** 0.5 if nsq < 1e-300 else (float(nsq.numerator) / float(nsq.denominator)) ** 0.5
    scale = max(max(abs(c) for c in p) for p in base)
    if scale == 0.0:
        scale = 1.0
    # 1e-9 relative to the true norm, with a floor of 1e-12 of the size of the configuration (a purely relative
    # test is meaningless when the hull contains, or nearly contains, the origin)
    tol = 1e-9 * ref_norm + 1e-12 * scale
    viol = []
    hist = {"jolt_set": {}, "orig_n": {}, "opt_dim": {}}
    n_eval = 0
    perms = sorted(set(itertools.permutations(range(k))), key=lambda p: p)
    seen_orders = set()
    hull_cache = {}
    feas_cache = {}
    dependent = len(S) < k and any(ref.project_affine([exact_pts[i] for i in c]) is None
                                   for c in [tuple(range(k))])
    for perm in perms:
        order = tuple(base[i] for i in perm)
        if order in seen_orders:
            continue
        seen_orders.add(order)
        # ---------------- Jolt solver
        Y = np.zeros((4, 3))
        Y[:k] = np.array(order)
        Yin = Y.copy()
        n_eval += 1
        try:
            ok, v, vlsq, sset = get_closest_point_to_origin(Y, k, np.inf)
        except Exception as e:  # noqa
            viol.append(_viol("exception", "jolt", "k%d" % k, {"order": order, "exc": repr(e)}))
            ok = None
        if ok is not None:
            if not ok or v is None or not np.all(np.isfinite(v)):
                viol.append(_viol("nonfinite", "jolt", "k%d" % k, {"order": order, "ok": bool(ok)}))
            else:
                v = np.asarray(v, dtype=float)
                sset = int(sset)
                hist["jolt_set"][str(bin(sset).count("1"))] = hist["jolt_set"].get(str(bin(sset).count("1")), 0) + 1
                if not np.array_equal(Y[:k], Yin[:k]):
                    viol.append(_viol("input_mutated", "jolt", "k%d" % k, {"order": order}))
                err = abs(float(np.linalg.norm(v)) - ref_norm)
                if not err <= tol:
                    viol.append(_viol(_norm_kind(v, exact_pts, ref_norm, tol, feas_cache), "jolt", "k%d" % k,
                                      {"order": order, "v": v, "ref_norm": ref_norm, "err": err, "set": sset}))
                if abs(float(vlsq) - float(np.dot(v, v))) > 1e-12 * max(scale * scale, float(np.dot(v, v))):
                    viol.append(_viol("len_sq", "jolt", "k%d" % k, {"order": order, "vlsq": float(vlsq)}))
                if sset <= 0 or sset >= (1 << k):
                    viol.append(_viol("subset_range", "jolt", "k%d" % k, {"order": order, "set": sset}))
                else:
                    sub = tuple(sorted(order[i] for i in range(k) if sset & (1 << i)))
                    key = (sub, tuple(v.tolist()))
                    if key not in hull_cache:
                        d2 = ref.dist_sq_to_hull([tuple(F(c) for c in p) for p in sub], tuple(F(float(c)) for c in v))
                        hull_cache[key] = float(d2) ** 0.5
                    if hull_cache[key] > tol:
                        viol.append(_viol("subset_hull", "jolt", _classify(k, sub),
                                          {"order": order, "v": v, "set": sset, "dist_to_subset_hull": hull_cache[key]}))
        # ---------------- original GJK backup procedure
        sx = SimplexInfo()
        sx.n_simplex_points = k
        sx.points[:k] = np.array(order)
        sx.dot_product_table[:k, :k] = sx.points[:k].dot(sx.points[:k].T)
        sx.indices_polytope1[:k] = np.arange(k)
        sx.indices_polytope2[:k] = np.arange(k)
        sol = Solution()
        n_eval += 1
        try:
            sol, _ = distance_subalgorithm_with_backup_procedure(sx, sol, backup=True)
        except Exception as e:  # noqa
            viol.append(_viol("exception", "orig_backup", "k%d" % k, {"order": order, "exc": repr(e)}))
            continue
        m = len(sx)
        hist["orig_n"][str(m)] = hist["orig_n"].get(str(m), 0) + 1
        w = np.array(sol.barycentric_coordinates[:m], dtype=float)
        sd = np.array(sol.search_direction, dtype=float)
        subp = np.array(sx.points[:m], dtype=float)
        if not (np.all(np.isfinite(w)) and np.all(np.isfinite(sd)) and np.isfinite(sol.distance_squared)):
            viol.append(_viol("nonfinite", "orig_backup", "k%d" % k, {"order": order}))
            continue
        err = abs(float(np.linalg.norm(sd)) - ref_norm)
        if not err <= tol:
            viol.append(_viol(_norm_kind(sd, exact_pts, ref_norm, tol, feas_cache), "orig_backup", "k%d" % k,
                              {"order": order, "v": sd, "ref_norm": ref_norm, "err": err, "m": m}))
        if abs(sol.distance_squared - float(np.dot(sd, sd))) > 1e-9 * scale * scale:
            viol.append(_viol("len_sq", "orig_backup", "k%d" % k, {"order": order}))
        if np.any(w < -1e-12) or abs(float(w.sum()) - 1.0) > 1e-9:
            viol.append(_viol("weights", "orig_backup", "k%d" % k, {"order": order, "w": w}))
        rec = w.dot(subp)
        if float(np.linalg.norm(rec - sd)) > tol:
            viol.append(_viol("reproduce", "orig_backup", "k%d" % k, {"order": order, "w": w, "sub": subp, "v": sd}))
        # subset rows must be input points, and the index vectors must follow the reordering
        inp = np.array(order)
        for r in range(m):
            i1 = int(sx.indices_polytope1[r])
            if not (0 <= i1 < k) or not np.array_equal(inp[i1], subp[r]) or int(sx.indices_polytope2[r]) != i1:
                viol.append(_viol("subset_rows", "orig_backup", "k%d" % k, {"order": order, "sub": subp}))
                break
    dim = len(S) - 1
    hist["opt_dim"]["%d:%d" % (k, dim)] = 1
    nontrivial = []
    if dim > 0 or nsq == 0 or dependent:
        nontrivial.append([desc["pts"], desc["scale"], desc.get("needle")])
    return {"viol": viol, "n_eval": n_eval, "n_trans": len(seen_orders), "traces": n_eval,
            "nontrivial": nontrivial, "hist": hist,
            "sample": {"points": base, "orderings_executed": len(seen_orders), "exact_min_norm_sq": str(nsq),
                       "optimal_subsimplex": list(S)} if (dim == 2 and k == 4) else None}
