"""C17 - tetrahedral mesh factories partition the shape with valid potentials.

Parameter lattices per factory including every class boundary (cylinder length = diameter +- tiny steps, boxes with
two or three equal sides +- tiny steps, subdivision orders 0-4, resolution hints coarse -> fine, sizes 1e-2 .. 1e2).
Oracle: all |volumes| > 0, sum |volumes| = volume of the convex hull of the vertices (tiles without gaps or
overlaps: every tetrahedron lies in the hull), vertices on or inside the analytic shape, boundary vertices have
potential 0, medial vertices have the inradius as potential and really are at that depth, box/cube exact;
helpers (volumes, AABBs, centre of mass) = direct computation; RigidBody.make_* = factory + pose.
"""
import itertools
import math

import numpy as np

from .. import scenes as sc
from ..refmodel import shapes as rs

PROPERTY = "C17"
TECHNIQUE = ("exhaustive enumeration of factory parameter lattices (incl. class-boundary values) on the real mesh factories vs "
             "determinant volumes, convex-hull volume and analytic shape membership of the reference model")
RULE = ("state = (factory, parameter tuple); one mesh per state with per-tetrahedron and per-vertex checks; non-trivial = parameters on or "
        "next to a class boundary (equal sides, length = diameter) or order >= 2 / fine resolution; distinct = distinct state")
ASSUMPTIONS = ["scipy.spatial.ConvexHull volume is the trusted base for the hull volume", "tolerances: volumes 1e-9 relative, membership 1e-9*size"]
CHUNK = 6
STATE_TIMEOUT = 300.0


def warmup():
    import distance3d.hydroelastic_contact  # noqa


def enumerate_states(tier, seed):
    S = []
    orders = range(0, 5) if tier == "thorough" else range(0, 4)
    for r in (0.01, 0.5, 1.0, 100.0):
        for o in orders:
            S.append({"f": "sphere", "p": [r, o]})
    for radii in ((1, 1, 1), (1, 0.5, 0.25), (100, 1, 0.01), (0.01, 0.02, 0.03), (0.3, 0.3, 0.7)):
        for o in orders:
            S.append({"f": "ellipsoid", "p": [list(radii), o]})
    for s in (0.01, 0.3, 1.0, 100.0):
        S.append({"f": "cube", "p": [s]})
    e = 1e-9
    for size in ((1, 1, 1), (1, 1, 2), (2, 1, 1), (1, 2, 1), (1, 2, 3), (3, 2, 1), (2, 3, 1), (0.01, 0.01, 0.02), (100, 50, 25),
                 (1, 1, 1 + e), (1, 1 + 1e-12, 2), (1, 1 + 1e-15, 1), (2, 2, 1), (1, 2, 2), (2, 1, 2), (1 + 2e-14, 1, 1), (5, 5, 5 - 1e-13),
                 (0.5, 100, 0.5), (1, 1 - 1e-14, 3)):
        S.append({"f": "box", "p": [list(size)]})
    for scale in (0.01, 1.0, 100.0):
        r = 0.5 * scale
        for lf in (2.0, 2.0 * (1 + 1e-15), 2.0 * (1 - 1e-15), 2.0 * (1 + 1e-13), 2.0 * (1 - 1e-13), 2.0 * (1 + 1e-9), 2.0 * (1 - 1e-9), 1.0, 0.2, 4.0, 40.0):
            for hint in (4.0 * r, r, 0.5 * r) + ((0.125 * r,) if tier == "thorough" or lf in (2.0, 1.0, 4.0) else ()):
                S.append({"f": "cylinder", "p": [r, lf * r, hint]})
    for scale in (0.01, 1.0, 100.0):
        r = 0.5 * scale
        for hf in (0.02, 1.0, 2.0, 8.0, 80.0):
            for hint in (4.0 * r, r, 0.5 * r) + ((0.2 * r,) if tier == "thorough" else ()):
                S.append({"f": "capsule", "p": [r, hf * r, hint]})
    if tier == "thorough":
        seen = {repr(x) for x in S}

        def add(x):
            if repr(x) not in seen:
                seen.add(repr(x))
                S.append(x)
        # full products of side / radius alphabets (every equal-sides pattern at every scale combination)
        sides = (0.01, 0.5, 1.0, 1.0 + 1e-12, 2.0, 100.0)
        for size in itertools.product(sides, repeat=3):
            add({"f": "box", "p": [list(size)]})
        for radii in itertools.product((0.01, 0.3, 1.0, 100.0), repeat=3):
            for o in range(0, 4):
                add({"f": "ellipsoid", "p": [list(radii), o]})
        for r in (0.01, 0.03, 0.5, 1.0, 7.0, 100.0):
            for lf in (0.02, 0.2, 0.5, 1.0, 1.5, 1.9, 1.99, 2.0 * (1 - 1e-6), 2.0, 2.0 * (1 + 1e-6), 2.01, 2.1, 2.5, 3.0, 4.0, 7.0, 10.0, 40.0, 100.0):
                for hint in (8.0 * r, 2.0 * r, r, 0.7 * r, 0.4 * r, 0.25 * r):
                    add({"f": "cylinder", "p": [r, lf * r, hint]})
            for hf in (0.002, 0.02, 0.3, 1.0, 2.0, 3.0, 8.0, 30.0, 80.0):
                for hint in (8.0 * r, 2.0 * r, r, 0.7 * r, 0.4 * r, 0.25 * r):
                    add({"f": "capsule", "p": [r, hf * r, hint]})
        for r in (0.03, 0.2, 3.0, 20.0):
            for o in orders:
                add({"f": "sphere", "p": [r, o]})
    return S, {"bound_completed": "%d parameter tuples over the six factories (orders 0-%d, 3-4 resolution hints, scales 1e-2..1e2, all class boundaries)"
                                  % (len(S), max(orders)), "exhaustive": True}


def _viol(entry, kind, detail):
    return {"kind": kind, "entry": entry, "sig": "%s:%s" % (entry, kind), "detail": detail}


def make(f, p):
    from distance3d import hydroelastic_contact as hc
    from distance3d.hydroelastic_contact import _tetra_mesh_creation as tm
    T = sc.pose(25, np.array([0.3, -0.2, 0.5]))
    if f == "sphere":
        v, t, pot = tm.make_tetrahedral_sphere(p[0], p[1])
        rb = hc.RigidBody.make_sphere(T[:3, 3].copy(), p[0], p[1])
        ref, inr = rs.Sphere(np.zeros(3), p[0]), p[0]
    elif f == "ellipsoid":
        radii = np.array(p[0], dtype=float)
        v, t, pot = tm.make_tetrahedral_ellipsoid(radii, p[1])
        rb = hc.RigidBody.make_ellipsoid(T.copy(), radii, p[1])
        ref, inr = rs.Ellipsoid(np.eye(4), radii), float(radii.min())
    elif f == "cube":
        v, t, pot = tm.make_tetrahedral_cube(p[0])
        rb = hc.RigidBody.make_cube(T.copy(), p[0])
        ref, inr = rs.Box(np.eye(4), [p[0]] * 3), p[0] / 2
    elif f == "box":
        size = np.array(p[0], dtype=float)
        v, t, pot = tm.make_tetrahedral_box(size)
        rb = hc.RigidBody.make_box(T.copy(), size)
        ref, inr = rs.Box(np.eye(4), size), float(size.min()) / 2
    elif f == "cylinder":
        v, t, pot = tm.make_tetrahedral_cylinder(p[0], p[1], p[2])
        rb = hc.RigidBody.make_cylinder(T.copy(), p[0], p[1], p[2])
        ref, inr = rs.Cylinder(np.eye(4), p[0], p[1]), min(p[0], p[1] / 2)
    elif f == "capsule":
        v, t, pot = tm.make_tetrahedral_capsule(p[0], p[1], p[2])
        rb = hc.RigidBody.make_capsule(T.copy(), p[0], p[1], p[2])
        ref, inr = rs.Capsule(np.eye(4), p[0], p[1]), p[0]
    else:
        raise ValueError(f)
    return np.asarray(v, dtype=float), np.asarray(t), np.asarray(pot, dtype=float), rb, ref, inr, T


def run_state(desc):
    from distance3d import hydroelastic_contact as hc
    f, p = desc["f"], desc["p"]
    viol = []
    try:
        v, t, pot, rb, ref, inr, T = make(f, p)
    except Exception as e:  # noqa
        return {"viol": [_viol("make_tetrahedral_" + f, "exception:" + type(e).__name__, {"params": p, "exc": repr(e)[:300]})], "n_eval": 1}
    ent = "make_tetrahedral_" + f
    size = ref.size()
    n_eval = 1
    if t.ndim != 2 or t.shape[1] != 4 or v.ndim != 2 or v.shape[1] != 3 or pot.shape != (len(v),) or not np.issubdtype(t.dtype, np.integer):
        return {"viol": [_viol(ent, "array_shapes", {"params": p, "v": v.shape, "t": t.shape, "pot": pot.shape})], "n_eval": 1}
    if t.min() < 0 or t.max() >= len(v) or not (np.all(np.isfinite(v)) and np.all(np.isfinite(pot))):
        return {"viol": [_viol(ent, "index_range_or_nonfinite", {"params": p})], "n_eval": 1}
    P = v[t]
    E = P[:, 1:] - P[:, :1]
    signed = np.linalg.det(E) / 6.0
    vols = np.abs(signed)
    total = float(vols.sum())
    # 'strictly positive volume': > 0 always; away from the class boundaries (where the medial surface legitimately
    # collapses to slivers of the size of the perturbation) also clearly non-degenerate
    near_boundary = False
    if f == "box":
        s_ = sorted(p[0])
        near_boundary = 0 < (s_[1] - s_[0]) <= 1e-6 * s_[1] or 0 < (s_[2] - s_[1]) <= 1e-6 * s_[2]
    if f == "cylinder":
        near_boundary = 0 < abs(p[1] - 2 * p[0]) <= 1e-6 * p[0]
    thr = 0.0 if near_boundary else 1e-12 * total / len(vols)
    if np.any(vols <= thr):
        i = int(np.argmin(vols))
        viol.append(_viol(ent, "degenerate_tetrahedron", {"params": p, "tetrahedron": t[i], "volume": float(vols[i]), "total": total}))
    if len(set(tuple(sorted(x)) for x in t.tolist())) != len(t) or any(len(set(x)) != 4 for x in t.tolist()):
        viol.append(_viol(ent, "duplicate_tetrahedron_or_repeated_vertex", {"params": p}))
    used = np.unique(t)
    if len(used) != len(v):
        viol.append(_viol(ent, "unused_vertices", {"params": p, "n_vertices": len(v), "used": len(used)}))
    from scipy.spatial import ConvexHull
    hull = ConvexHull(v)
    if abs(total - hull.volume) > 1e-9 * hull.volume:
        viol.append(_viol(ent, "volumes_do_not_sum_to_hull_volume", {"params": p, "sum": total, "hull": float(hull.volume),
                                                                    "relative": (total - hull.volume) / hull.volume}))
    # conforming tiling: every triangular face belongs to exactly two tetrahedra, or to exactly one and then lies on the boundary of
    # the hull (overlapping tetrahedra whose volumes happen to add up leave interior faces with a single owner)
    faces = {}
    for tet in t.tolist():
        for tri in itertools.combinations(tet, 3):
            k = tuple(sorted(tri))
            faces[k] = faces.get(k, 0) + 1
    eq = hull.equations
    bad_multi = [k for k, c in faces.items() if c > 2]
    bad_single = []
    for k, c in faces.items():
        if c == 1:
            cen = v[list(k)].mean(axis=0)
            if float(np.max(eq[:, :3] @ cen + eq[:, 3])) < -1e-7 * size:
                bad_single.append(k)
    if bad_multi:
        viol.append(_viol(ent, "face_shared_by_more_than_two_tetrahedra", {"params": p, "face": bad_multi[0], "count": faces[bad_multi[0]]}))
    if bad_single:
        viol.append(_viol(ent, "interior_face_with_a_single_tetrahedron", {"params": p, "face": bad_single[0], "n_faces": len(bad_single)}))
    # vertices on or inside the analytic shape; potentials
    tol = 1e-9 * size
    for i, x in enumerate(v):
        d = ref.dist(x)
        if d > tol:
            viol.append(_viol(ent, "vertex_outside_shape", {"params": p, "vertex": x, "dist": d}))
            break
    on_boundary = np.array([ref.inball(x) <= tol for x in v]) if f != "ellipsoid" else np.array(
        [abs(np.linalg.norm(x / np.array(p[0], dtype=float)) - 1.0) <= 1e-9 for x in v])
    for i, x in enumerate(v):
        if on_boundary[i]:
            if abs(pot[i]) > 1e-12 * size:
                viol.append(_viol(ent, "boundary_vertex_potential_not_zero", {"params": p, "vertex": x, "potential": float(pot[i])}))
                break
        else:
            if abs(pot[i] - inr) > 1e-9 * size:
                viol.append(_viol(ent, "interior_vertex_potential_not_inradius", {"params": p, "vertex": x, "potential": float(pot[i]), "inradius": inr}))
                break
            if f != "ellipsoid" and abs(ref.inball(x) - inr) > 1e-9 * size:
                viol.append(_viol(ent, "interior_vertex_not_medial", {"params": p, "vertex": x, "depth": ref.inball(x), "inradius": inr}))
                break
    if f in ("box", "cube"):
        exact = float(np.prod(p[0])) if f == "box" else p[0] ** 3
        if abs(total - exact) > 1e-12 * exact:
            viol.append(_viol(ent, "box_tiling_not_exact", {"params": p, "sum": total, "exact": exact}))
    # helpers
    hv = np.asarray(hc.tetrahedral_mesh_volumes(P), dtype=float)
    if hv.shape != vols.shape or np.max(np.abs(hv - vols)) > 1e-12 * max(total, 1e-300):
        viol.append(_viol("tetrahedral_mesh_volumes", "differs_from_determinant", {"params": p}))
    ha = np.asarray(hc.tetrahedral_mesh_aabbs(P), dtype=float)
    exp = np.stack([P.min(axis=1), P.max(axis=1)], axis=2)
    if ha.shape != exp.shape or not np.array_equal(ha, exp):
        viol.append(_viol("tetrahedral_mesh_aabbs", "differs_from_min_max", {"params": p}))
    com = np.asarray(hc.center_of_mass_tetrahedral_mesh(P), dtype=float)
    ecom = (vols[:, None] * P.mean(axis=1)).sum(axis=0) / total
    if np.max(np.abs(com - ecom)) > 1e-9 * size:
        viol.append(_viol("center_of_mass_tetrahedral_mesh", "differs_from_direct", {"params": p, "com": com, "direct": ecom}))
    n_eval += 3
    # RigidBody factory
    if not (np.array_equal(np.asarray(rb.vertices_), v) and np.array_equal(np.asarray(rb.tetrahedra_), t) and np.array_equal(np.asarray(rb.potentials_), pot)):
        viol.append(_viol("RigidBody.make_" + f, "mesh_differs_from_factory", {"params": p}))
    if f == "sphere":
        okpose = np.allclose(rb.body2origin_[:3, 3], T[:3, 3], rtol=0, atol=1e-12) and np.allclose(rb.body2origin_[:3, :3], np.eye(3), rtol=0, atol=1e-12)
    else:
        okpose = np.allclose(rb.body2origin_, T, rtol=0, atol=1e-12)
    if not okpose:
        viol.append(_viol("RigidBody.make_" + f, "pose_not_stored", {"params": p}))
    if np.max(np.abs(np.asarray(rb.com) - ecom)) > 1e-9 * size:
        viol.append(_viol("RigidBody.com", "differs_from_direct", {"params": p}))
    boundary_class = False
    if f == "box":
        s_ = sorted(p[0])
        boundary_class = (s_[1] - s_[0]) <= 1e-8 * s_[1] or (s_[2] - s_[1]) <= 1e-8 * s_[2]
    if f == "cylinder":
        boundary_class = abs(p[1] - 2 * p[0]) <= 1e-8 * p[0]
    nontriv = 1 if (boundary_class or (f in ("sphere", "ellipsoid") and p[1] >= 2) or (f in ("cylinder", "capsule") and p[2] <= p[0])) else 0
    sample = {"factory": f, "params": p, "n_vertices": len(v), "n_tetrahedra": len(t), "sum_volumes": total, "hull_volume": float(hull.volume)} \
        if (f == "cylinder" and p[1] == 2.0 * p[0] and p[0] == 0.5) else None
    return {"viol": viol, "n_eval": n_eval, "n_trans": len(t), "traces": 1, "nontrivial_n": nontriv,
            "hist": {"factory": {f: 1}, "signed_orientation": {f + (":positive" if np.all(signed > 0) else ":negative" if np.all(signed < 0) else ":mixed"): 1}},
            "sample": sample}
