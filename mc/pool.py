"""Sandboxed fork pool.

The parent imports and warms the library once, then forks long-lived workers.
Chunks of states are handed out deterministically.  A worker announces every
state before executing it and streams each result back, so when a worker dies
(compiled out-of-bounds access -> segfault) or a state exceeds the per-state
watchdog, the parent knows exactly which state was running: the worker is
killed by PID, that state is reported as 'crash' / 'hang', and the rest of the
chunk is re-queued to a fresh worker forked from the clean parent image.
"""
import multiprocessing as mp
import os
import signal
import time
import traceback
from multiprocessing.connection import wait

_CTX = mp.get_context("fork")


def _worker_main(conn, func, init_func):
    try:
        signal.signal(signal.SIGINT, signal.SIG_IGN)
        if init_func is not None:
            init_func()
        while True:
            msg = conn.recv()
            if msg is None:
                break
            cid, items = msg
            try:
                for k, it in enumerate(items):
                    conn.send(("at", cid, k))
                    conn.send(("res", cid, k, func(it)))
                conn.send(("done", cid))
            except BaseException as e:  # harness error, not a library error
                conn.send(("err", cid, "".join(traceback.format_exception(type(e), e, e.__traceback__))))
    except (EOFError, KeyboardInterrupt, BrokenPipeError):
        pass
    finally:
        os._exit(0)


class _W:
    def __init__(self, func, init_func):
        self.pconn, cconn = _CTX.Pipe()
        self.proc = _CTX.Process(target=_worker_main, args=(cconn, func, init_func), daemon=True)
        self.proc.start()
        cconn.close()
        self.task = None
        self.cur = -1
        self.t_item = None
        self.n_res = 0

    def kill(self):
        try:
            os.kill(self.proc.pid, signal.SIGKILL)
        except OSError:
            pass
        self.proc.join(5)
        try:
            self.pconn.close()
        except OSError:
            pass


class HarnessError(RuntimeError):
    pass


def run_chunks(func, chunks, nproc=None, timeout=120.0, init_func=None, on_result=None,
               progress=None):
    """Run func(item) for every item of every chunk in forked workers.

    on_result(item, result) is called in the parent for every normal result.
    Returns a list of (item, status, payload) with status in {'crash','hang'}
    for states that killed their worker or exceeded `timeout` seconds.
    """
    nproc = nproc or int(os.environ.get("VERIF_NPROC", "0") or 0) or min(16, os.cpu_count() or 1)
    queue = [(i, list(c)) for i, c in enumerate(chunks)]
    queue.reverse()
    next_id = len(queue)
    abnormal = []
    workers = []
    n_done = 0
    n_total = len(queue)
    try:
        while queue or any(w.task for w in workers):
            idle = [w for w in workers if w.task is None]
            while queue and (idle or len(workers) < nproc):
                if idle:
                    w = idle.pop()
                else:
                    w = _W(func, init_func)
                    workers.append(w)
                cid, items = queue.pop()
                w.task = (cid, items)
                w.cur = -1
                w.n_res = 0
                w.t_item = time.time()
                w.pconn.send((cid, items))
            busy = [w for w in workers if w.task is not None]
            if not busy:
                continue
            wait([w.pconn for w in busy] + [w.proc.sentinel for w in busy], timeout=1.0)
            now = time.time()
            for w in busy:
                cid, items = w.task
                broken = False
                try:
                    while w.task is not None and w.pconn.poll():
                        msg = w.pconn.recv()
                        if msg[0] == "at":
                            w.cur = msg[2]
                            w.t_item = now
                        elif msg[0] == "res":
                            w.n_res = msg[2] + 1
                            if on_result:
                                on_result(items[msg[2]], msg[3])
                        elif msg[0] == "done":
                            w.task = None
                            n_done += 1
                            if progress:
                                progress(n_done, n_total)
                        elif msg[0] == "err":
                            raise HarnessError("harness error in worker:\n" + msg[2])
                except (EOFError, OSError):
                    broken = True
                if w.task is None:
                    continue
                status = None
                if broken or not w.proc.is_alive():
                    # drain is complete (poll returned False or pipe broke)
                    status = "crash"
                elif now - w.t_item > timeout:
                    status = "hang"
                if status:
                    code = w.proc.exitcode
                    w.kill()
                    workers.remove(w)
                    k = max(w.cur, w.n_res)  # the state that was running
                    if k < len(items):
                        abnormal.append((items[k], status, {"exitcode": code, "timeout_s": timeout}))
                    rest = items[k + 1:]
                    if rest:
                        queue.append((next_id, rest))
                        next_id += 1
                        n_total += 1
                    n_done += 1
    finally:
        for w in workers:
            try:
                if w.task is None:
                    w.pconn.send(None)
            except OSError:
                pass
        time.sleep(0.01)
        for w in workers:
            w.kill()
    return abnormal


def chunked(seq, n):
    seq = list(seq)
    return [seq[i:i + n] for i in range(0, len(seq), n)]
