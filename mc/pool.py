"""Sandboxed fork pool.

The parent imports and warms the library once, then forks long-lived workers.
Chunks of state indices are handed out deterministically; a worker that dies or
exceeds the watchdog is killed by PID and the chunk is bisected in fresh workers
until the single offending state is isolated, which is then reported as a
'crash' / 'hang' result for that state.
"""
import multiprocessing as mp
import os
import signal
import time
import traceback
from multiprocessing.connection import wait

_CTX = mp.get_context("fork")


def _worker_main(conn, func, init_func):
    try:
        signal.signal(signal.SIGINT, signal.SIG_IGN)
        if init_func is not None:
            init_func()
        while True:
            msg = conn.recv()
            if msg is None:
                break
            cid, items = msg
            try:
                res = func(items)
                conn.send((cid, "ok", res))
            except BaseException as e:  # harness error, not a library error
                conn.send((cid, "err", "".join(traceback.format_exception(type(e), e, e.__traceback__))))
    except (EOFError, KeyboardInterrupt):
        pass
    finally:
        os._exit(0)


class _W:
    def __init__(self, func, init_func):
        self.pconn, cconn = _CTX.Pipe()
        self.proc = _CTX.Process(target=_worker_main, args=(cconn, func, init_func), daemon=True)
        self.proc.start()
        cconn.close()
        self.task = None
        self.t0 = None

    def kill(self):
        try:
            os.kill(self.proc.pid, signal.SIGKILL)
        except OSError:
            pass
        self.proc.join(5)
        try:
            self.pconn.close()
        except OSError:
            pass


class HarnessError(RuntimeError):
    pass


def run_chunks(func, chunks, nproc=None, timeout=120.0, init_func=None, on_result=None,
               progress=None):
    """Run func(list_of_items) over chunks in forked workers.

    Returns list of (chunk_items, status, payload) for abnormal single-item
    chunks: status in {'crash','hang'}; normal results are passed to
    on_result(items, result).  func must be defined before the call (fork).
    """
    nproc = nproc or int(os.environ.get("VERIF_NPROC", "0") or 0) or min(16, os.cpu_count() or 1)
    queue = [(i, list(c), timeout) for i, c in enumerate(chunks)]
    queue.reverse()
    next_id = len(queue)
    abnormal = []
    workers = []
    n_done = 0
    n_total = len(queue)
    try:
        while queue or any(w.task for w in workers):
            # fill
            idle = [w for w in workers if w.task is None]
            while queue and (idle or len(workers) < nproc):
                if idle:
                    w = idle.pop()
                else:
                    w = _W(func, init_func)
                    workers.append(w)
                cid, items, to = queue.pop()
                w.task = (cid, items, to)
                w.t0 = time.time()
                w.pconn.send((cid, items))
            busy = [w for w in workers if w.task is not None]
            if not busy:
                continue
            ready = wait([w.pconn for w in busy] + [w.proc.sentinel for w in busy], timeout=1.0)
            now = time.time()
            for w in busy:
                cid, items, to = w.task
                got = None
                if w.pconn in ready or w.pconn.poll():
                    try:
                        got = w.pconn.recv()
                    except (EOFError, OSError):
                        got = None
                        status = "crash"
                    if got is not None:
                        _, st, res = got
                        if st == "err":
                            raise HarnessError("harness error in worker:\n" + res)
                        w.task = None
                        n_done += 1
                        if on_result:
                            on_result(items, res)
                        if progress:
                            progress(n_done, n_total)
                        continue
                    dead = True
                elif not w.proc.is_alive():
                    dead = True
                    status = "crash"
                elif now - w.t0 > to:
                    dead = True
                    status = "hang"
                else:
                    dead = False
                if dead:
                    code = w.proc.exitcode
                    w.kill()
                    workers.remove(w)
                    if len(items) <= 1:
                        abnormal.append((items, status, {"exitcode": code, "timeout_s": to}))
                        n_done += 1
                    else:
                        h = len(items) // 2
                        # bisect: halves get the same budget
                        queue.append((next_id, items[:h], to))
                        queue.append((next_id + 1, items[h:], to))
                        next_id += 2
                        n_total += 1
    finally:
        for w in workers:
            try:
                if w.task is None:
                    w.pconn.send(None)
            except OSError:
                pass
        time.sleep(0.01)
        for w in workers:
            w.kill()
    return abnormal


def chunked(seq, n):
    seq = list(seq)
    return [seq[i:i + n] for i in range(0, len(seq), n)]
